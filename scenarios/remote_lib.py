"""Pure functions and classes evaluated remotely and locally in C14."""


def add(a, b):
  return a + b


def mul(a, b):
  return a * b


def neg(a):
  return -a


def mklist(n):
  return list(range(n))


def boom(kind, msg):
  raise {'ValueError': ValueError, 'KeyError': KeyError,
         'ZeroDivisionError': ZeroDivisionError,
         'RuntimeError': RuntimeError}[kind](msg)


class Box:
  """A small object with attributes, items, methods and a call operator."""

  def __init__(self, v):
    self.v = v
    self.items = [v, v + 1, v + 2]
    self.bumps = 0
    self._priv = v * 3          # "private" members are members too

  def _twice(self):
    return self.v * 2

  def get(self):
    return self.v

  def plus(self, k):
    return Box(self.v + k)

  def bump(self):
    self.bumps += 1
    return self.bumps

  def fail(self):
    raise ValueError(f'box {self.v} failed')

  def __call__(self, x):
    return self.v * x

  def __eq__(self, other):
    return isinstance(other, Box) and self.v == other.v

  def __hash__(self):
    return hash(('Box', self.v))

  def __repr__(self):
    return f'Box({self.v})'


def task_fn(i, fail=None):
  """A unit of work for as_completed; `fail` makes task i raise."""
  if fail is not None and i == fail:
    raise ValueError(f'application error in task {i}')
  return ('r', i)


class CustomError(Exception):
  """An application-defined exception type."""


_EXC = {'ValueError': ValueError, 'KeyError': KeyError,
        'ZeroDivisionError': ZeroDivisionError, 'RuntimeError': RuntimeError,
        'TimeoutError': TimeoutError, 'TypeError': TypeError, 'OSError': OSError,
        'LookupError': LookupError, 'AssertionError': AssertionError,
        'CustomError': CustomError}


def boom2(kind, msg):
  raise _EXC[kind](msg)


# Set by a scenario: 'shutdown' is a callable telling whether the server that
# evaluates has been asked to shut down; 'log' collects (tag, that flag) at the
# moment slow_boom raises.
PROBE = {'shutdown': None, 'log': []}


def slow_boom(secs, kind, msg, tag):
  """Works for `secs`, then fails with an application error."""
  import time
  time.sleep(secs)
  f = PROBE['shutdown']
  PROBE['log'].append([tag, bool(f and f())])
  raise _EXC[kind](msg)


def ident(x):
  return x


def kw_add(*, a=0, b=0):
  return a + b
