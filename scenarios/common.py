"""Helpers shared by the scenario families."""

from __future__ import annotations

import collections
import copy


class Family:
  """Base class: a scenario generator + driver + oracle."""

  prop = ''
  name = ''
  # Step budget per run; exhausting it is a harness error, never a pass.
  max_steps = 300_000

  def gen(self, rng, tier):
    raise NotImplementedError

  def drive(self, cfg, sim):
    raise NotImplementedError

  def check(self, cfg, out):
    raise NotImplementedError

  def shrink(self, cfg):
    """Yields strictly simpler configurations (for minimisation)."""
    return iter(())

  def nontrivial(self, cfg, out):
    return out['switches'] > 0

  def sample(self, cfg, out):
    return {'cfg': cfg, 'steps': out['steps'], 'switches': out['switches'],
            'decisions': len(out['decisions']), 'sim_seconds': round(out['now'], 6)}

  def probes(self, cfg, out):
    """Names of reach probes this run hit (counted in the evidence)."""
    return ()


def top_repo_fn(stack):
  for fr in stack:
    if fr.startswith('repo:'):
      return fr[5:]
  return None


def blocked_sig(threads, skip_names=('main',)):
  """Signature part: where (in repo code) the blocked threads are parked."""
  fns = set()
  for t in threads:
    if t['name'] in skip_names and t.get('tid', 1) == 0:
      continue
    fn = top_repo_fn(t.get('stack', ()))
    if fn:
      fns.add(fn)
  return '+'.join(sorted(fns)) or 'none'


def v(clause, sig, msg, **kw):
  d = {'clause': clause, 'sig': f'{clause}/{sig}', 'msg': msg}
  d.update(kw)
  return d


def deadlock_violation(out, clause='termination'):
  f = out.get('failure')
  if f is None or f.kind != 'deadlock':
    return None
  threads = f.detail.get('threads', [])
  return v(clause, 'deadlock:' + blocked_sig(threads),
           'deadlock: no runnable thread, no pending timer; blocked: ' +
           '; '.join(f"{t['name']}[{t['why']}]@{'<'.join(t['stack'][:3])}"
                     for t in threads))


def leftover_repo_threads(out, ignore_groups=('net',), ignore_prefix=()):
  """Threads still alive at the end that are parked inside repo code."""
  res = []
  for t in out.get('leftover', ()):
    if t.get('group') in ignore_groups:
      continue
    if any(t['name'].startswith(p) for p in ignore_prefix):
      continue
    if top_repo_fn(t.get('stack', ())):
      res.append(t)
  return res


class RecordingQueue:
  """Wraps a queue-like; records the true enqueue/dequeue order."""

  def __init__(self, q):
    self._q = q
    self.puts = []
    self.gets = []

  def get_nowait(self):
    x = self._q.get_nowait()
    self.gets.append(x)
    return x

  def put_nowait(self, x):
    self._q.put_nowait(x)
    self.puts.append(x)

  def empty(self):
    return self._q.empty()

  def qsize(self):
    return self._q.qsize()


def multiset(xs):
  return collections.Counter(map(repr, xs))


def simpler_ints(cfg, path, lo=0):
  """Yields copies of cfg with the int at `path` reduced."""
  cur = cfg
  for k in path[:-1]:
    cur = cur[k]
  val = cur[path[-1]]
  for nv in sorted({lo, val // 2, val - 1}):
    if lo <= nv < val:
      c = copy.deepcopy(cfg)
      d = c
      for k in path[:-1]:
        d = d[k]
      d[path[-1]] = nv
      yield c
