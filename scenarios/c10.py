"""C10 — checkpoint and resume continue exactly where iteration stopped.

Fault model: a *crash* abandons the iterator object and every thread it started
at an arbitrary point; the only thing that survives is the captured state, and
it survives as bytes (cloudpickle round trip).  Restore builds a new iterator
from a freshly built pipeline plus those bytes.  Up to three generations of
cut-restore-cut per run, over plain / sharded / nested-sharded sequence sources
(one sequence or several merged files) and sharded iterables, at the data-source level and at the pipeline level
(fused or chained, with aggregates, num_threads 0..3).
"""

from __future__ import annotations

import copy

from scenarios import common
from scenarios import pipes
from scenarios.common import v


class TrackedList:
  """A random-access sequence that records which indices were read."""

  def __init__(self, data, offset=0, reads=None):
    self._data = data
    self._offset = offset
    self.reads = [] if reads is None else reads

  def __len__(self):
    return len(self._data)

  poison = frozenset()   # global indices whose read fails (skippable error)

  def __getitem__(self, i):
    n = len(self._data)
    if isinstance(i, slice):
      idx = [self._offset + j for j in range(*i.indices(n))]
      if any(j in self.poison for j in idx):
        raise ValueError('unreadable record in the slice')
      self.reads.extend(idx)
    else:
      j = self._offset + (i + n if i < 0 else i)
      if j in self.poison:
        raise ValueError(f'unreadable record {j}')
      self.reads.append(j)
    return self._data[i]


class TrackedFiles:
  """Several TrackedLists (the files of one data set) sharing one read log."""

  def __init__(self, data, sizes):
    self.reads = []
    self.parts = []
    at = 0
    for k in sizes:
      self.parts.append(TrackedList(data[at:at + k], at, self.reads))
      at += k
    assert at == len(data), (at, len(data))


class TrackedIterable:
  """A re-iterable (not an iterator) that records how far it was read."""

  def __init__(self, data):
    self._data = data
    self.reads = []

  def __iter__(self):
    for i, x in enumerate(self._data):
      self.reads.append(i)
      yield x


def _kind(key):
  """Which aggregate a result key belongs to ('int', 'tsum', 'cnt' or None)."""
  for k in ('int', 'tsum', 'cnt'):
    if f"{k}'" in key:
      return k
  return None


def _add(kind, a, b):
  if a is None:
    return copy.deepcopy(b)
  if kind == 'int':     # count, total, sumsq, xor, hsum
    return [a[0] + b[0], a[1] + b[1], a[2] + b[2], a[3] ^ b[3], a[4] + b[4]]
  if kind == 'tsum':    # 'tsum', rows, sum x, sum id*x
    return [a[0]] + [x + y for x, y in zip(a[1:], b[1:])]
  out = dict(a)
  for k, x in b.items():
    out[k] = out.get(k, 0) + x
  return out


def _zero(kind):
  return {'int': [0, 0, 0, 0, 0], 'tsum': ['tsum', 0, 0, 0], 'cnt': {}}[kind]


def _readahead_explanation(obs):
  """Source elements whose loss explains the resumed aggregates, or None.

  Candidates are the elements read from the source before some crash.  An
  element may be lost before the first stage's aggregates or only after them,
  so two nested sets are searched: lost for the early ('e_') aggregates, and
  lost for the later ones.  Only additive aggregates are decisive.
  """
  import itertools
  per = {int(i): d for i, d in obs['per_elem'].items()}
  cand = sorted(set(i for r in obs['reads_at_cut'] for i in r) & set(per))
  want = obs['res']
  keys = [k for k in obs['ref_res'] if _kind(k)]
  if not keys or len(cand) > 14:
    return None
  early = [k for k in keys if "'e_" in k]
  late = [k for k in keys if "'e_" not in k]

  def total(ks, dropped):
    out = {}
    for k in ks:
      acc = None
      for i, d in per.items():
        if i in dropped or d is None or k not in d:
          continue
        acc = _add(_kind(k), acc, d[k])
      out[k] = acc
    return out

  def matches(ks, dropped):
    tot = total(ks, dropped)
    for k in ks:
      w = want.get(k)
      t = tot[k]
      if t is None:
        t = _zero(_kind(k))
      if isinstance(t, dict):
        t = {a: b for a, b in t.items() if b}
        w = {a: b for a, b in (w or {}).items() if b}
      if t != w:
        return False
    return True

  def solutions(ks):
    out = []
    for n in range(0, len(cand) + 1):
      for sub in itertools.combinations(cand, n):
        if matches(ks, set(sub)):
          out.append(set(sub))
      if out and n >= max(len(x) for x in out) + 1:
        break
    return out

  # the early and the later aggregates are explained independently, then a
  # nested pair is looked for (lost before the first stage => lost after it)
  # The capture is not atomic with respect to the worker threads either: two
  # aggregates of the first stage may have seen a different number of the
  # elements in flight, so each early aggregate gets its own subset.
  late_sols = solutions(late) if late else [set()]
  early_sols = {k: solutions([k]) for k in early}
  for s_late in late_sols:
    picked = {}
    for k in early:
      fit = [x for x in early_sols[k] if x <= s_late or not late]
      if not fit:
        break
      picked[k] = min(fit, key=len)
    else:
      lost_early = set().union(*picked.values()) if picked else set()
      if s_late or lost_early:
        return {'after_first_stage': sorted(s_late | lost_early),
                'before_first_stage': {k: sorted(x) for k, x in picked.items()}}
  # The mirror image for the aggregates of the first stage of a chain: the
  # source position is copied before the stage's aggregate state while the
  # threads of the next stage keep pulling; what they pull in between is in the
  # captured aggregate AND read again after the restore.  Each early aggregate:
  # all elements, minus some of the lost ones, plus some read-ahead ones twice.
  if not (early and late):
    return None

  def total_twice(k, dropped, twice):
    acc = None
    for i, d in per.items():
      if d is None or k not in d or i in dropped:
        continue
      acc = _add(_kind(k), acc, d[k])
      if i in twice:
        acc = _add(_kind(k), acc, d[k])
    return acc

  budget = [200_000]

  def recount(k, s_late):
    rest = [i for i in cand if i not in s_late]
    lost_opts = [set(c) for n in range(len(s_late) + 1)
                 for c in itertools.combinations(sorted(s_late), n)]
    for n in range(1, len(rest) + 1):
      for tw in itertools.combinations(rest, n):
        for lo in lost_opts:
          budget[0] -= 1
          if budget[0] < 0:
            return None
          t = total_twice(k, lo, set(tw))
          w = want.get(k)
          if isinstance(t, dict):
            t = {a: b for a, b in t.items() if b}
            w = {a: b for a, b in (w or {}).items() if b}
          if t == w:
            return {'lost': sorted(lo), 'twice': sorted(tw)}
    return None

  for s_late in late_sols:
    picked = {}
    for k in early:
      fit = [x for x in early_sols[k] if x <= s_late]
      if fit:
        picked[k] = {'lost': sorted(min(fit, key=len)), 'twice': []}
        continue
      r = recount(k, s_late)
      if r is None:
        break
      picked[k] = r
    else:
      if any(x['twice'] for x in picked.values()):
        return {'after_first_stage': sorted(s_late), 'recounted': True,
                'first_stage': picked}
  return None


class CkptFamily(common.Family):
  prop = 'C10'
  name = 'ckpt'

  def gen(self, rng, tier):
    spec = pipes.gen_spec(rng, max_n=12, allow_rebatch=False, allow_sink=False)
    level = rng.choice(['source', 'pipeline', 'pipeline', 'chain'])
    # scale: a few runs use a source longer than the 64-element read-ahead of
    # the sequence iterators, so that cuts fall after a refill of the
    # read-ahead cache and shards end inside a read-ahead block (sequential
    # configurations only: see num_threads below)
    big = rng.random() < 0.04
    if big:
      spec['n'] = rng.randrange(65, 150)
    if level != 'source' and rng.random() < 0.25:
      # A re-batching operator whose batches are whole multiples of the source
      # elements (one row each): after every emitted batch it holds nothing,
      # so a checkpoint between two batches is complete.
      spec['rows'] = 1
      spec['ops'].insert(rng.randrange(0, len(spec['ops']) + 1),
                         {'op': 'rebatch', 'size': rng.choice([2, 3, 4])})
      spec['rebatch_exact'] = True
    if level == 'chain' and rng.random() < 0.4:
      # aggregates on the first named stage as well
      pipes.gen_early(rng, spec)
    kind = rng.choice(['seq', 'seq', 'multi', 'iter'])
    shards = []
    nlev = rng.choice([0, 0, 1, 1, 2]) if kind != 'iter' else rng.choice([0, 1])
    for _ in range(nlev):
      k = rng.choice([1, 2, 3])
      shards.append([rng.randrange(k), k])
    n = spec['n']
    files = []
    if kind == 'multi':
      # a data set made of several files (some possibly empty); shard ends
      # regularly coincide with file boundaries
      left = n
      while left > 0:
        k = rng.choice([0, 1, 1, 2, 2, 3, 4])
        k = min(k, left)
        files.append(k)
        left -= k
      if rng.random() < 0.3:
        files.append(0)
    gens = rng.choice([1, 1, 2, 2, 3])
    cuts = [rng.randrange(0, n + 1) for _ in range(gens)]
    nops = len(spec['ops'])
    cutpoints = []
    if level == 'chain':
      cutpoints = sorted({rng.randrange(0, nops + 1)})
      if spec.get('early'):
        cutpoints = [spec['early']['cut']]
      if rng.random() < 0.4:
        # a third named stage
        cutpoints = sorted(set(cutpoints) |
                           {rng.randrange(cutpoints[0], nops + 1)})
    num_threads = 0 if level == 'source' else rng.choice([0, 0, 0, 1, 2, 3])
    if spec.get('rebatch_exact') or big:
      num_threads = 0    # (each thread would re-batch its own share)
    # unreadable records that the source is configured to skip
    poison = []
    if kind in ('seq', 'multi') and rng.random() < 0.2:
      poison = sorted({rng.randrange(n) for _ in range(rng.choice([1, 1, 2]))})
    # the remainder of a restored source is sharded again (a job resumed with
    # another degree of parallelism): [i, n] applied after the first restore
    reshard = None
    if level == 'source' and kind in ('seq', 'multi') and not poison and \
        rng.random() < 0.35:
      k = rng.choice([1, 2, 3])
      reshard = [rng.randrange(k), k]
    return {
        'spec': spec, 'level': level, 'kind': kind, 'shards': shards,
        'files': files, 'poison': poison, 'reshard': reshard,
        # the source either skips unreadable records itself, or raises and the
        # consumer catches the error and goes on with the same iterator
        'poison_mode': ('raise' if poison and level == 'source' and
                        rng.random() < 0.5 else 'skip'),
        # a second crash before any new checkpoint: the same loaded state
        # object is used for a second restore
        'reuse': rng.choice([0, 0, 0, 1, 2]),
        'cuts': cuts, 'stages': cutpoints, 'num_threads': num_threads,
        'after': [rng.choice([0, 0, 1, 2, 3]) for _ in cuts],
        'sim': {'fine': num_threads > 0 and rng.random() < 0.2,
                'stay': rng.choice([0.0, 0.0, 0.5, 0.8])},
    }

  # ------------------------------------------------------------------------
  def _source(self, cfg, tracked):
    from ml_metrics._src.chainables import io
    skip = bool(cfg.get('poison')) and cfg.get('poison_mode') != 'raise'
    if cfg['kind'] == 'seq':
      ds = io.SequenceDataSource(tracked, ignore_error=skip)
      for i, k in cfg['shards']:
        ds = ds.shard(i, k)
    elif cfg['kind'] == 'multi':
      ds = io.SequenceDataSource.from_sequences(tracked.parts, ignore_error=skip)
      for i, k in cfg['shards']:
        ds = ds.shard(i, k)
    else:
      ds = io.ShardedIterable(tracked)
      for i, k in cfg['shards']:
        ds = ds.shard(i, k)
    return ds

  def _make_iter(self, cfg, tracked):
    """A fresh iterator over a freshly built source/pipeline."""
    ds = self._source(cfg, tracked)
    if cfg['level'] == 'source':
      return iter(ds)
    p = pipes.build(cfg['spec'], num_threads=cfg['num_threads'], data_source=ds,
                    stages=cfg['stages'] or None)
    return p.make().iterate()

  def drive(self, cfg, sim):
    import cloudpickle
    spec = cfg['spec']
    data = pipes.make_data(spec)
    key = pipes.batch_key
    has_agg = cfg['level'] != 'source' and bool(spec['aggs'])

    # uninterrupted reference run (sequential, same source configuration)
    ref_cfg = dict(cfg, num_threads=0)
    poison = frozenset(cfg.get('poison') or ())

    def poisoned(t):
      for part in getattr(t, 'parts', [t]):
        part.poison = poison
      return t

    mk = {'seq': lambda: poisoned(TrackedList(data)),
          'multi': lambda: poisoned(TrackedFiles(data, cfg['files'])),
          'iter': lambda: TrackedIterable(data)}[cfg['kind']]

    raising = cfg.get('poison_mode') == 'raise'

    def drain(it_):
      """Rest of the stream and the value its StopIteration carries."""
      out_ = []
      while True:
        try:
          out_.append(key(next(it_)))
        except StopIteration as e:
          val = e.value
          return out_, [type(val).__name__, pipes.norm_result(
              getattr(val, 'agg_result', None))]
        except ValueError:
          if not raising:
            raise
          sim.count('fault:read_error_caught_by_consumer')

    it = self._make_iter(ref_cfg, mk())
    ref, ref_stop = drain(it)
    ref_res = pipes.norm_result(it.agg_result) if has_agg else None

    segments = []
    reads_at_cut = []
    tracked = mk()
    it = self._make_iter(cfg, tracked)
    for g, cut in enumerate(cfg['cuts']):
      seg = []
      exhausted = False
      for _ in range(cut):
        try:
          seg.append(key(next(it)))
        except StopIteration:
          exhausted = True
          break
        except ValueError:
          if not raising:
            raise
          sim.count('fault:read_error_caught_by_consumer')
      segments.append(seg)
      if exhausted:
        break
      # ---- crash: only the pickled state survives --------------------------
      sim.count('fault:crash_restore')
      # periodic checkpointing: the checkpoint is taken here, the job runs on
      # for `after` more elements and crashes then; what was captured is
      # written out only at the crash (it stays a live object until then)
      state_obj = it.state
      reads_at_cut.append(sorted(set(tracked.reads)))
      after = (cfg.get('after') or [0] * len(cfg['cuts']))[g]
      for _ in range(after):
        try:
          next(it)
          sim.count('probe:ran_on_after_checkpoint')
        except StopIteration:
          break
        except ValueError:
          if not raising:
            raise
      blob = cloudpickle.dumps(state_obj)
      if hasattr(it, 'maybe_stop') and sim.choose(2, 'o'):
        # half of the crashes are "graceful": the old iterator is stopped;
        # the others simply abandon it (its threads stay where they are)
        try:
          it.maybe_stop()
        except Exception:  # pylint: disable=broad-exception-caught
          pass
      state = cloudpickle.loads(blob)
      tracked = mk()
      if cfg.get('reshard') and g == 0:
        # restore the data source itself, shard what is left, go on with that
        i_, n_ = cfg['reshard']
        ds2 = self._source(cfg, tracked).from_state(state).shard(i_, n_)
        done = sum(len(x) for x in segments)
        rest = ref[done:]
        q_, r_ = divmod(len(rest), n_)
        lo = sum(q_ + 1 if j < r_ else q_ for j in range(i_))
        hi = lo + (q_ + 1 if i_ < r_ else q_)
        ref = ref[:done] + rest[lo:hi]
        sim.count('fault:resharded_after_restore')
        it = iter(ds2)
        continue
      fresh = self._make_iter(cfg, tracked)
      it = fresh.from_state(state)
      if cfg.get('reuse') and g == len(cfg['cuts']) - 1:
        # the restored job crashes again before it took a checkpoint of its
        # own: what it delivered is void, the same state is restored again
        for _ in range(cfg['reuse']):
          try:
            next(it)
          except StopIteration:
            break
          except ValueError:
            if not raising:
              raise
        sim.count('fault:second_restore_from_same_state')
        if hasattr(it, 'maybe_stop'):
          try:
            it.maybe_stop()
          except Exception:  # pylint: disable=broad-exception-caught
            pass
        tracked = mk()
        it = self._make_iter(cfg, tracked).from_state(state)
    else:
      exhausted = False
    tail, stop = [], None
    if not exhausted:
      tail, stop = drain(it)
    segments.append(tail)
    res = pipes.norm_result(it.agg_result) if has_agg else None
    per_elem = None
    if has_agg and cfg['num_threads'] and res != ref_res:
      # what every single source element contributes to every aggregate (no
      # re-batching in this family: elements are processed independently);
      # used to tell the known read-ahead loss from any other difference
      per_elem = {}
      import numpy as np
      own = {int(np.asarray(x['id']).reshape(-1)[0]) // spec['rows']
             for x in iter(self._source(cfg, mk()))}
      for i, x in enumerate(data):
        if i not in own:
          continue      # not in this shard
        p1 = pipes.build(spec, data_source=[x], stages=cfg['stages'] or None)
        it1 = p1.make().iterate()
        for _ in it1:
          pass
        per_elem[i] = pipes.norm_result(it1.agg_result)
    return {'ref': ref, 'ref_res': ref_res, 'segments': segments, 'res': res,
            'ref_stop': ref_stop, 'stop': stop,
            'reads_at_cut': reads_at_cut, 'n_data': len(data),
            'per_elem': per_elem}

  # ------------------------------------------------------------------------
  def check(self, cfg, out):
    tag = f"{cfg['level']}:{cfg['kind']}:{'threads' if cfg['num_threads'] else 'seq'}"
    dl = common.deadlock_violation(out)
    if dl:
      dl['sig'] += ':' + tag
      return [dl]
    if out.get('failure') is not None:
      return []
    if 'error' in out:
      e = out['error']
      return [v('resume-error', f'{type(e).__name__}:{tag}', repr(e))]
    obs = out['value']
    res = []
    ref = obs['ref']
    got = [b for seg in obs['segments'] for b in seg]
    gens = len(obs['segments']) - 1
    gtag = 'gen1' if gens <= 1 else 'gen2+'
    nested = 'nested' if len(cfg['shards']) > 1 else (
        'sharded' if cfg['shards'] else 'plain')
    if cfg['num_threads'] == 0:
      if got != ref:
        a, b = common.multiset(ref), common.multiset(got)
        lost, extra = a - b, b - a
        kind = 'repeated' if extra else ('skipped' if lost else 'reordered')
        res.append(v('resume', f'{kind}:{tag}:{nested}:{gtag}',
                     f"delivered {len(got)} vs {len(ref)} uninterrupted; "
                     f"skipped={sorted(lost)[:4]} repeated={sorted(extra)[:4]} "
                     f"cuts={cfg['cuts']} shards={cfg['shards']}"))
    else:
      a, b = common.multiset(ref), common.multiset(got)
      lost, extra = a - b, b - a
      if extra:
        res.append(v('resume', f'repeated:{tag}:{nested}:{gtag}',
                     f'repeated={sorted(extra)[:4]} cuts={cfg["cuts"]}'))
      elif lost:
        # Which source elements do the missing batches come from?  If every
        # one of them had been read from the source by a generation that then
        # crashed (read ahead by the worker threads, not yet delivered), the
        # loss is the read-ahead loss; anything else is a different defect.
        rows = cfg['spec']['rows']
        read_before_crash = set()
        for r in obs['reads_at_cut']:
          read_before_crash.update(r)
        src_idx = set()
        for b in ref:
          if lost.get(repr(b)):
            src_idx.add(b[0][0][1] // rows)
        kind = ('skipped-readahead' if src_idx and src_idx <= read_before_crash
                else 'skipped')
        res.append(v('resume', f"{kind}:{cfg['level']}:threads",
                     f'{sum(lost.values())} of {len(ref)} batches never '
                     f'delivered (source elements {sorted(src_idx)}, read before '
                     f'a crash: {sorted(read_before_crash)}); cuts={cfg["cuts"]} '
                     f'num_threads={cfg["num_threads"]} kind={cfg["kind"]} '
                     f'shards={cfg["shards"]}'))
    if obs.get('stop') is not None and not res and (
        obs['stop'][0] != obs['ref_stop'][0] or not pipes.results_equal(
            obs['ref_stop'][1], obs['stop'][1])) and pipes.results_equal(
                obs['ref_res'], obs['res']):
      res.append(v('aggregate', f"stop-value-differs:{cfg['level']}",
                   f"the uninterrupted iterator ends with StopIteration("
                   f"{obs['ref_stop']}), the resumed one with {obs['stop']}"))
    if obs['ref_res'] is not None and not res:
      if not pipes.results_equal(obs['ref_res'], obs['res']):
        lost = None
        if cfg['num_threads'] and obs.get('per_elem'):
          lost = _readahead_explanation(obs)
        if lost is not None and lost.get('recounted'):
          res.append(v('resume', f"first-stage-aggregate-recounted:{cfg['level']}:threads",
                       f"the aggregates of the first stage count source elements "
                       f"twice that had been read ahead at a checkpoint: {lost}; "
                       f"uninterrupted {obs['ref_res']} != resumed {obs['res']}"))
        elif lost is not None:
          # the read-ahead loss seen through an aggregate only (the batches
          # themselves were filtered out further down, or belong to an
          # earlier stage)
          res.append(v('resume', f"skipped-readahead:{cfg['level']}:threads",
                       f"aggregates differ exactly by source elements "
                       f"{lost} which had been read before a crash: "
                       f"uninterrupted {obs['ref_res']} != resumed {obs['res']}"))
        else:
          res.append(v('aggregate', f'differs:{tag}:{nested}:{gtag}',
                       f"uninterrupted {obs['ref_res']} != resumed {obs['res']}"))
    return res

  def shrink(self, cfg):
    if cfg['sim'].get('fine'):
      c = copy.deepcopy(cfg); c['sim']['fine'] = False; yield c
    spec = cfg['spec']
    if len(cfg['cuts']) > 1:
      for i in range(len(cfg['cuts'])):
        c = copy.deepcopy(cfg); del c['cuts'][i]
        if c.get('after'):
          del c['after'][i]
        yield c
    if cfg.get('reuse'):
      c = copy.deepcopy(cfg); c['reuse'] = 0; yield c
    if cfg.get('poison'):
      for i in range(len(cfg['poison'])):
        c = copy.deepcopy(cfg); del c['poison'][i]; yield c
    for i, a in enumerate(cfg.get('after') or ()):
      if a:
        c = copy.deepcopy(cfg); c['after'][i] = a - 1; yield c
    for i in range(len(spec['ops'])):
      c = copy.deepcopy(cfg)
      del c['spec']['ops'][i]
      c['stages'] = sorted({min(x, len(c['spec']['ops'])) for x in c['stages']})
      if c['spec'].get('early'):
        e = c['spec']['early']['cut'] = min(c['spec']['early']['cut'],
                                            len(c['spec']['ops']))
        c['stages'] = sorted({e} | {x for x in c['stages'] if x > e})
      yield c
    if len(cfg['stages']) > 1:
      c = copy.deepcopy(cfg); c['stages'] = cfg['stages'][:1]; yield c
    if spec.get('early'):
      c = copy.deepcopy(cfg); del c['spec']['early']; yield c
    if len(spec['aggs']) > 1:
      c = copy.deepcopy(cfg); c['spec']['aggs'] = spec['aggs'][:1]; yield c
    if spec['slice']:
      c = copy.deepcopy(cfg); c['spec']['slice'] = False; yield c
    if spec['n'] > 1:
      c = copy.deepcopy(cfg)
      c['spec']['n'] -= 1
      c['cuts'] = [min(x, c['spec']['n']) for x in c['cuts']]
      c['poison'] = [x for x in c.get('poison', []) if x < c['spec']['n']]
      if c.get('files'):
        j = max(i for i, k in enumerate(c['files']) if k > 0)
        c['files'][j] -= 1
      yield c
    if cfg.get('files') and len(cfg['files']) > 1:
      # merge the last two files
      c = copy.deepcopy(cfg)
      c['files'][-2:] = [sum(c['files'][-2:])]
      yield c
    if spec['rows'] > 1:
      c = copy.deepcopy(cfg); c['spec']['rows'] = 1; yield c
    for i, x in enumerate(cfg['cuts']):
      if x > 0:
        c = copy.deepcopy(cfg); c['cuts'][i] -= 1; yield c
    if cfg['shards']:
      c = copy.deepcopy(cfg); c['shards'] = cfg['shards'][:-1]; yield c
    if cfg['num_threads'] > 1:
      c = copy.deepcopy(cfg); c['num_threads'] -= 1; yield c
    if cfg['level'] == 'chain':
      c = copy.deepcopy(cfg); c['level'] = 'pipeline'; c['stages'] = []; yield c

  def nontrivial(self, cfg, out):
    return out['counters'].get('fault:crash_restore', 0) > 0

  def probes(self, cfg, out):
    p = []
    if out['counters'].get('fault:crash_restore', 0) >= 2:
      p.append('probe:second_generation_restore')
    if cfg['num_threads'] and out['counters'].get('fault:crash_restore', 0):
      p.append('probe:checkpoint_of_threaded_pipeline')
    if out['counters'].get('probe:ran_on_after_checkpoint', 0):
      p.append('probe:ran_on_after_checkpoint')
    if len(cfg['shards']) > 1:
      p.append('probe:nested_shards')
    return p


FAMILIES = {'ckpt': CkptFamily()}
