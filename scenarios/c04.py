"""C04 — iterator queues deliver every element exactly once and always terminate.

System under simulation: the real `IteratorQueue` (three locks, two condition
variables) and `AsyncIteratorQueue`, fed by producer threads and drained by
consumer threads in every dequeue mode.  No fault is injected here (C05 does
that); what is explored is the interleaving.
"""

from __future__ import annotations

import copy

from scenarios import common
from scenarios.common import v

# `get_nowait()` is not a consumer mode: it is an internal helper that must be
# called with the dequeue lock held (bare, it raises RuntimeError('cannot notify
# on un-acquired lock') when it detects exhaustion) and nothing in the
# repository or its tests calls it from outside.
MODES = ('get', 'batch_nb', 'batch_b', 'iter')


def expected_items(cfg):
  return [(p, i) for p in range(cfg['P']) for i in range(cfg['items'][p])]


def expected_returns(cfg):
  return [('ret', p) for p in range(cfg['P']) if cfg['rets'][p]]


def order_ok(seq, n_producers):
  """Each producer's items appear in production order in seq."""
  last = [-1] * n_producers
  for x in seq:
    if not (isinstance(x, (tuple, list)) and len(x) == 2):
      continue
    p, i = x
    if i <= last[p]:
      return False
    last[p] = i
  return True


class QueueFamily(common.Family):
  prop = 'C04'
  name = 'queue'

  def gen(self, rng, tier):
    P = rng.choice([1, 1, 2, 2, 3, 4])
    C = rng.choice([1, 2, 2, 3, 4])
    cap = rng.choice([0, 0, 1, 1, 2, 3, 8])
    modes = []
    for _ in range(C):
      modes.append(rng.choice(MODES))
    items = [rng.randrange(0, 7) for _ in range(P)]
    shares = None
    if C > 1 and sum(items) >= C and rng.random() < 0.2:
      # consumers that take a fixed share one element at a time and leave
      # (nobody stays to see the end of the stream)
      total, shares = sum(items), []
      for c in range(C - 1):
        shares.append(rng.randrange(1, total - sum(shares) - (C - 1 - c) + 1))
      shares.append(total - sum(shares))
      modes = ['get_k'] * C
    return {
        'P': P,
        'items': items,
        'shares': shares,
        'rets': [rng.random() < 0.6 for _ in range(P)],
        'C': C,
        'modes': modes,
        'ks': [rng.choice([0, 1, 2, 3, 5]) for _ in range(C)],
        'cap': cap,
        'pool': rng.random() < 0.3,
        'set_max': True if P > 1 else rng.random() < 0.7,
        'sim': {'fine': rng.random() < 0.25,
                'stay': rng.choice([0.0, 0.0, 0.5, 0.8])},
    }

  def drive(self, cfg, sim):
    import queue
    import threading
    import time
    from concurrent import futures
    from ml_metrics._src.utils import iter_utils

    P, C, cap = cfg['P'], cfg['C'], cfg['cap']
    base = queue.Queue(cap) if cap else queue.SimpleQueue()
    rq = common.RecordingQueue(base)
    q = iter_utils.IteratorQueue(
        rq, name='q', max_enqueuer=P if cfg['set_max'] else 0)
    got = [[] for _ in range(C)]
    ends = [None] * C
    prod = [None] * P

    def gen(p):
      for i in range(cfg['items'][p]):
        yield (p, i)
      if cfg['rets'][p]:
        return ('ret', p)

    def produce(p):
      try:
        q.enqueue_from_iterator(gen(p))
        prod[p] = 'ok'
      except Exception as e:  # pylint: disable=broad-exception-caught
        prod[p] = f'exc:{type(e).__name__}:{e}'

    def consume(c):
      mode, k = cfg['modes'][c], cfg['ks'][c]
      try:
        if mode == 'iter':
          it = iter(q)
          while True:
            got[c].append(next(it))
        if mode == 'get_k':
          for _ in range(cfg['shares'][c]):
            got[c].append(q.get())
          ends[c] = ['left', len(got[c])]
          return
        while True:
          if mode == 'get':
            got[c].append(q.get())
          elif mode == 'batch_nb':
            got[c].extend(q.get_batch(k, block=False))
          elif mode == 'batch_b':
            got[c].extend(q.get_batch(k, block=True))
          else:
            raise AssertionError(mode)
      except StopIteration as e:
        ends[c] = ['stop', list(e.args)]
      except Exception as e:  # pylint: disable=broad-exception-caught
        ends[c] = ['exc', type(e).__name__, str(e)]

    cs = [threading.Thread(target=consume, args=(c,), name=f'cons{c}')
          for c in range(C)]
    pool = None
    if cfg['pool']:
      pool = futures.ThreadPoolExecutor(max_workers=P, thread_name_prefix='pp')
      starters = [lambda p=p: pool.submit(produce, p) for p in range(P)]
      ps = []
    else:
      ps = [threading.Thread(target=produce, args=(p,), name=f'prod{p}')
            for p in range(P)]
      starters = [t.start for t in ps]
    starters += [t.start for t in cs]
    # The order in which threads are started is part of the schedule.
    order = list(range(len(starters)))
    for i in range(len(order) - 1, 0, -1):
      j = sim.choose(i + 1, 'o')
      order[i], order[j] = order[j], order[i]
    for i in order:
      starters[i]()
    for t in ps + cs:
      t.join()
    if pool is not None:
      pool.shutdown(wait=True)
    return {'got': got, 'ends': ends, 'prod': prod, 'puts': rq.puts,
            'gets': rq.gets, 'returned': list(q.returned),
            'exhausted': q.exhausted}

  def check(self, cfg, out):
    dl = common.deadlock_violation(out)
    if dl:
      return [dl]
    if out.get('failure') is not None:
      return []
    if 'error' in out:
      e = out['error']
      return [v('driver', f'driver-error:{type(e).__name__}', repr(e))]
    obs = out['value']
    res = []
    exp = expected_items(cfg)
    allgot = [tuple(x) for g in obs['got'] for x in g]
    if common.multiset(allgot) != common.multiset(exp):
      lost = common.multiset(exp) - common.multiset(allgot)
      dup = common.multiset(allgot) - common.multiset(exp)
      kind = 'lost' if lost else 'dup'
      res.append(v('exactly-once', kind,
                   f'lost={dict(lost)} extra={dict(dup)}'))
    if not order_ok(obs['gets'], cfg['P']):
      res.append(v('fifo', 'dequeue-order', f"gets={obs['gets']}"))
    for c, g in enumerate(obs['got']):
      if cfg['modes'][c] == 'aiter_shared':
        # Coroutines that share one async iterator are handed the elements in
        # the order their batches complete, not in the order they were
        # dequeued: the order seen by ONE of them is not determined (nothing is
        # lost or doubled, which is what is checked for this mode).
        continue
      if not order_ok(g, cfg['P']):
        res.append(v('fifo', f"consumer-order:{cfg['modes'][c]}", f'{g}'))
    exp_ret = common.multiset(expected_returns(cfg))
    for c, end in enumerate(obs['ends']):
      mode = cfg['modes'][c]
      if mode == 'get_k':
        if end != ['left', cfg['shares'][c]]:
          res.append(v('exactly-once', 'share-not-received:get_k',
                       f"consumer {c} wanted {cfg['shares'][c]} elements: {end}"))
        continue
      if end is None or end[0] != 'stop':
        res.append(v('end-of-stream', f'not-stop:{mode}', f'consumer {c}: {end}'))
      elif common.multiset(tuple(x) if isinstance(x, list) else x
                           for x in end[1]) != exp_ret:
        res.append(v('end-of-stream', f'returns:{mode}',
                     f'consumer {c} got {end[1]}, expected {expected_returns(cfg)}'))
    for p, st in enumerate(obs['prod']):
      if st != 'ok':
        res.append(v('producer', 'producer-error', f'producer {p}: {st}'))
    left = common.leftover_repo_threads(out)
    if left:
      res.append(v('thread-leak', common.blocked_sig(left), f'{left}'))
    return res

  def shrink(self, cfg):
    if cfg['sim'].get('fine'):
      c = copy.deepcopy(cfg); c['sim']['fine'] = False; yield c
    if cfg['pool']:
      c = copy.deepcopy(cfg); c['pool'] = False; yield c
    if cfg.get('shares'):
      return
    if cfg['C'] > 1:
      for drop in range(cfg['C']):
        c = copy.deepcopy(cfg)
        c['C'] -= 1
        del c['modes'][drop]
        del c['ks'][drop]
        yield c
    if cfg['P'] > 1:
      for drop in range(cfg['P']):
        c = copy.deepcopy(cfg)
        c['P'] -= 1
        del c['items'][drop]
        del c['rets'][drop]
        yield c
    for p in range(cfg['P']):
      if cfg['items'][p] > 0:
        c = copy.deepcopy(cfg); c['items'][p] -= 1; yield c
      if cfg['rets'][p]:
        c = copy.deepcopy(cfg); c['rets'][p] = False; yield c
    for i, m in enumerate(cfg['modes']):
      if m != 'get':
        c = copy.deepcopy(cfg); c['modes'][i] = 'get'; yield c
    for i, k in enumerate(cfg['ks']):
      if k > 1:
        c = copy.deepcopy(cfg); c['ks'][i] = k - 1; yield c
    if cfg['cap'] > 1:
      c = copy.deepcopy(cfg); c['cap'] -= 1; yield c

  def nontrivial(self, cfg, out):
    return out['switches'] > 2 and sum(cfg['items']) > 0

  def probes(self, cfg, out):
    return ()


# (aiter_shared: the coroutine consumers of that mode all pull from ONE async
# dequeue iterator)
AMODES = ('get', 'batch_nb', 'batch_b', 'iter', 'aget', 'abatch', 'aiter',
          'aiter_shared', 'aiter_shared')


class AsyncQueueFamily(common.Family):
  """AsyncIteratorQueue: one async producer on an event loop, consumers that are
  threads (get / get_batch / iteration) or coroutines (async_get,
  async_get_batch, async for), all through the queue's thread pool."""
  prop = 'C04'
  name = 'aqueue'

  def gen(self, rng, tier):
    C = rng.choice([1, 2, 2, 3])
    modes = [rng.choice(AMODES) for _ in range(C)]
    shared = C > 1 and rng.random() < 0.3
    if shared:
      # every consumer is a coroutine pulling from the one shared iterator
      modes = ['aiter_shared'] * C
    return {
        'P': 1,
        'items': [rng.randrange(0, 7) if not shared else rng.randrange(3, 9)],
        'rets': [rng.random() < 0.6],
        'C': C,
        'modes': modes,
        'ks': [rng.choice([0, 1, 2, 3]) for _ in range(C)],
        'cap': rng.choice([0, 0, 1, 2, 3]),
        'yield_between': rng.random() < 0.5,
        'cyield': rng.random() < 0.6,
        'extra_workers': rng.choice([0, 1, 2]),
        'sim': dict({'fine': rng.random() < 0.2,
                     'stay': rng.choice([0.0, 0.0, 0.5, 0.8])},
                    **({'pct': rng.choice([2, 3])} if rng.random() < 0.5 else {})),
    }

  def drive(self, cfg, sim):
    import asyncio
    import threading
    from concurrent import futures
    from ml_metrics._src.utils import iter_utils

    C = cfg['C']
    # every blocked consumer and every put occupies one pool thread
    pool = futures.ThreadPoolExecutor(
        max_workers=C + 2 + cfg['extra_workers'], thread_name_prefix='aqpool')
    q = iter_utils.AsyncIteratorQueue(cfg['cap'], name='aq', thread_pool=pool)
    sim.on_failure.append(lambda: sim.scratch.update(pool_state=(
        pool._work_queue.qsize(), len(pool._threads), pool._max_workers)))  # pylint: disable=protected-access
    loop = asyncio.new_event_loop()
    lt = threading.Thread(target=loop.run_forever, name='loop')
    lt.start()
    got = [[] for _ in range(C)]
    ends = [None] * C
    n = cfg['items'][0]

    class Source:
      def __init__(self):
        self.i = 0

      def __aiter__(self):
        return self

      async def __anext__(self):
        if cfg['yield_between']:
          await asyncio.sleep(0)
        if self.i >= n:
          if cfg['rets'][0]:
            raise StopAsyncIteration(('ret', 0))
          raise StopAsyncIteration()
        self.i += 1
        return (0, self.i - 1)

    def consume_thread(c):
      mode, k = cfg['modes'][c], cfg['ks'][c]
      try:
        if mode == 'iter':
          it = iter(q)
          while True:
            got[c].append(next(it))
        while True:
          if mode == 'get':
            got[c].append(q.get())
          elif mode == 'batch_nb':
            got[c].extend(q.get_batch(k, block=False))
          else:
            got[c].extend(q.get_batch(k, block=True))
      except StopIteration as e:
        ends[c] = ['stop', list(e.args)]
      except Exception as e:  # pylint: disable=broad-exception-caught
        ends[c] = ['exc', type(e).__name__, str(e)]

    shared_ait = []

    async def consume_async(c):
      mode = cfg['modes'][c]
      try:
        if mode == 'aiter':
          it = q.__aiter__()
          while True:
            got[c].append(await it.__anext__())
        if mode == 'aiter_shared':
          if not shared_ait:
            shared_ait.append(q.__aiter__())
          it = shared_ait[0]
          while True:
            got[c].append(await it.__anext__())
            if cfg.get('cyield'):
              # the consumer does some asynchronous work per element
              await asyncio.sleep(0)
        while True:
          if mode == 'aget':
            got[c].append(await q.async_get())
          else:
            got[c].extend(await q.async_get_batch())
      except StopAsyncIteration as e:
        ends[c] = ['stop', list(e.args)]
      except Exception as e:  # pylint: disable=broad-exception-caught
        ends[c] = ['exc', type(e).__name__, str(e)]

    waits = []
    starters = []
    prod_state = {}

    def start_producer():
      prod_state['f'] = asyncio.run_coroutine_threadsafe(
          q.async_enqueue_from_iterator(Source()), loop)

    starters.append(start_producer)
    for c in range(C):
      if cfg['modes'][c].startswith('a'):
        def start(c=c):
          waits.append(asyncio.run_coroutine_threadsafe(consume_async(c), loop))
        starters.append(start)
      else:
        t = threading.Thread(target=consume_thread, args=(c,), name=f'cons{c}')
        waits.append(t)
        starters.append(t.start)
    order = list(range(len(starters)))
    for i in range(len(order) - 1, 0, -1):
      j = sim.choose(i + 1, 'o')
      order[i], order[j] = order[j], order[i]
    for i in order:
      starters[i]()
    prod = 'ok'
    try:
      prod_state['f'].result()
    except Exception as e:  # pylint: disable=broad-exception-caught
      prod = f'exc:{type(e).__name__}:{e}'
    for w in waits:
      if isinstance(w, threading.Thread):
        w.join()
      else:
        w.result()
    loop.call_soon_threadsafe(loop.stop)
    lt.join()
    loop.close()
    pool.shutdown(wait=True)
    return {'got': got, 'ends': ends, 'prod': [prod], 'puts': [], 'gets': [],
            'returned': list(q.returned), 'exhausted': q.exhausted}

  def check(self, cfg, out):
    res = QueueFamily.check(self, cfg, out)
    for r in res:
      r['sig'] = r['sig'] + ':async'
    f = out.get('failure')
    state = out.get('scratch', {}).get('pool_state')
    if f is not None and f.kind == 'deadlock' and state is not None and res:
      queued, n_threads, max_workers = state
      if queued and n_threads < max_workers:
        # Not a queue defect: a submitted put/get never got a pool thread
        # although the pool was allowed more (CPython's idle-thread accounting
        # over-counted), and the tasks that occupy the threads wait for it.
        res = [v('termination', 'pool-task-never-started:async',
                 f'{queued} executor task(s) still queued with {n_threads} of '
                 f'{max_workers} pool threads started; ' + res[0]['msg'])]
    return res

  def shrink(self, cfg):
    if cfg['sim'].get('fine'):
      c = copy.deepcopy(cfg); c['sim']['fine'] = False; yield c
    if cfg['C'] > 1:
      for drop in range(cfg['C']):
        c = copy.deepcopy(cfg)
        c['C'] -= 1
        del c['modes'][drop]
        del c['ks'][drop]
        yield c
    if cfg['items'][0] > 0:
      c = copy.deepcopy(cfg); c['items'][0] -= 1; yield c
    if cfg['yield_between']:
      c = copy.deepcopy(cfg); c['yield_between'] = False; yield c
    if cfg['cap'] > 1:
      c = copy.deepcopy(cfg); c['cap'] -= 1; yield c

  def nontrivial(self, cfg, out):
    return out['switches'] > 4 and cfg['items'][0] > 0


FAMILIES = {'queue': QueueFamily(), 'aqueue': AsyncQueueFamily()}
