"""C20 — worker liveness and ownership bookkeeping stays consistent.

Three families over the real code:
  registry  - concurrent register / refresh / unregister / heartbeat handlers /
              late completion of old pings / clock jumps against WorkerRegistry
              and CourierClient.is_alive, with step invariants evaluated at
              every scheduling point;
  ownership - several pools and threads acquiring / releasing shared Worker
              objects (acquire_by, release, release_all, _acquire_all,
              next_idle_worker);
  poolops   - pool-level operations (run, call_and_wait) against real servers
              whose task returns or raises.
"""

from __future__ import annotations

import copy

from scenarios import common
from scenarios import cluster
from scenarios.common import v


# --------------------------------------------------------------------------
class RegistryFamily(common.Family):
  prop = 'C20'
  name = 'registry'

  def gen(self, rng, tier):
    nthreads = rng.choice([2, 2, 3, 4])
    threads = []
    for _ in range(nthreads):
      ops = []
      for _ in range(rng.randrange(2, 8)):
        k = rng.choice(['register', 'refresh', 'refresh', 'refresh_stale',
                        'refresh_future', 'unregister', 'heartbeat_rpc',
                        'heartbeat_dead_rpc', 'is_alive', 'is_alive', 'jump',
                        'call_start', 'call_done', 'call_done'])
        op = {'op': k, 'addr': rng.choice(['a', 'a', 'b'])}
        if k == 'jump':
          op['dt'] = rng.choice([1.0, 50.0, 500.0])
        ops.append(op)
      threads.append(ops)
    return {'threads': threads, 'threshold': rng.choice([70, 100]),
            'sim': {'fine': rng.random() < 0.6,
                    'stay': rng.choice([0.0, 0.0, 0.5])}}

  def drive(self, cfg, sim):
    import threading
    import time
    from concurrent import futures
    from ml_metrics._src.chainables import courier_server
    from ml_metrics._src.utils import courier_utils
    reg = courier_utils.worker_registry()
    srv = courier_server.CourierServer('hostsrv')   # only its handlers are used
    thr = cfg['threshold']
    clients = {a: courier_utils.CourierClient(a, heartbeat_threshold_secs=thr)
               for a in ('a', 'b')}
    # ---- step invariants: lock-free reads of the registry ------------------
    last = {}          # addr -> last value seen (None = declared dead)
    dead_since = {}    # addr -> True while declared dead and not re-registered
    hist = []
    state = {'msg': None}

    def invariant():
      data = reg.data
      for a in ('a', 'b'):
        cur = data.get(a, 'absent')
        prev = last.get(a, 'absent')
        if cur != prev:
          if isinstance(cur, float) and isinstance(prev, float) and cur < prev:
            state['msg'] = (f'heartbeat of {a} moved backwards: {prev:.6f} -> '
                            f'{cur:.6f}')
          if prev is None and cur is not None and not pending_register.get(a):
            state['msg'] = (f'{a} was declared dead and came back ({cur}) '
                            'without a register')
          last[a] = cur
          changes[a] = changes.get(a, 0) + 1
        # a declaration of death that has returned, with every registration
        # finished before it began and none under way: the worker must not be
        # recorded with a heartbeat (whatever the registry held before)
        u = unreg_start.get(a)
        if u is not None and isinstance(cur, float) and \
            not pending_register.get(a) and last_reg_end.get(a, -1) < u:
          state['msg'] = (f'{a} was declared dead (unregister returned) and is '
                          f'recorded alive ({cur}) without any register since')
      return state['msg']

    inflight = {'a': [], 'b': []}   # calls issued to the worker, not yet answered
    pending_register = {}   # addr -> number of register-type ops in flight
    changes = {}            # addr -> number of value changes seen so far
    unreg_start = {}        # addr -> logical start time of the latest returned unregister
    last_reg_end = {}       # addr -> logical end time of the latest finished register
    tick = [0]

    def now_tick():
      tick[0] += 1
      return tick[0]

    sim.invariants.append(invariant)

    def run(tid, ops):
      for op in ops:
        k, a = op['op'], op['addr']
        now = time.time()
        if k == 'register':
          pending_register[a] = pending_register.get(a, 0) + 1
          reg.register(a, now)
          last_reg_end[a] = now_tick()
          pending_register[a] -= 1
        elif k == 'refresh':
          reg.refresh(a, now)
        elif k == 'refresh_stale':
          reg.refresh(a, now - 1000.0)
        elif k == 'refresh_future':
          reg.refresh(a, now + 5.0)
        elif k == 'unregister':
          t_ = now_tick()
          reg.unregister(a)
          unreg_start[a] = max(unreg_start.get(a, 0), t_)
        elif k == 'heartbeat_rpc':
          pending_register[a] = pending_register.get(a, 0) + 1
          srv._heartbeat(a, True)  # pylint: disable=protected-access
          last_reg_end[a] = now_tick()
          pending_register[a] -= 1
        elif k == 'heartbeat_dead_rpc':
          t_ = now_tick()
          srv._heartbeat(a, False)  # pylint: disable=protected-access
          unreg_start[a] = max(unreg_start.get(a, 0), t_)
        elif k == 'is_alive':
          invariant()
          t0 = time.time()
          h0 = reg.data.get(a, 0.0)
          c0 = changes.get(a, 0)
          alive = clients[a]._is_heartbeat_fresh()  # pylint: disable=protected-access
          t1 = time.time()
          invariant()
          h1 = reg.data.get(a, 0.0)
          # only calls during which the recorded heartbeat never changed
          if changes.get(a, 0) == c0:
            hist.append([a, alive, t0, t1, h0, h1])
        elif k == 'call_start':
          # a call (or ping) to the worker that is still in flight
          f = futures.Future()
          inflight[a].append(f)
          clients[a]._pendings.append(  # pylint: disable=protected-access
              courier_utils.StateWithTime(f, now))
        elif k == 'call_done':
          # ... and its (possibly late) successful completion
          if inflight[a]:
            f = inflight[a].pop(0)
            if not f.done():
              f.set_result(None)
              sim.count('probe:late_completion_of_a_call')
        elif k == 'jump':
          sim.count('fault:clock_jump')
          sim.advance(op['dt'])

    ts = [threading.Thread(target=run, args=(i, ops), name=f'reg{i}')
          for i, ops in enumerate(cfg['threads'])]
    for t in ts:
      t.start()
    for t in ts:
      t.join()
    return {'hist': hist, 'final': {a: reg.data.get(a, 'absent') for a in 'ab'}}

  def check(self, cfg, out):
    dl = common.deadlock_violation(out)
    if dl:
      return [dl]
    f = out.get('failure')
    if f is not None and f.kind == 'invariant':
      msg = str(f)
      kind = 'heartbeat-moved-backwards' if 'backwards' in msg else 'dead-came-back'
      return [v('registry', kind, msg)]
    if f is not None:
      return []
    if 'error' in out:
      e = out['error']
      return [v('driver', f'registry:{type(e).__name__}', repr(e))]
    obs = out['value']
    res = []
    thr = cfg['threshold']
    for a, alive, t0, t1, h0, h1 in obs['hist']:
      # liveness is a function only of the last recorded heartbeat and the
      # threshold: with the heartbeat unchanged during the call, the answer
      # must be consistent with some instant inside the call
      if h0 == h1 and isinstance(h0, float):
        lo, hi = (t0 - h0) < thr, (t1 - h0) < thr
        if alive not in (lo, hi):
          res.append(v('registry', 'liveness-not-a-function-of-heartbeat',
                       f'{a}: alive={alive} heartbeat={h0} call=[{t0},{t1}] thr={thr}'))
      if h0 is None and h1 is None and alive:
        res.append(v('registry', 'dead-reported-alive', f'{a}'))
    return res

  def shrink(self, cfg):
    if cfg['sim'].get('fine'):
      c = copy.deepcopy(cfg); c['sim']['fine'] = False; yield c
    if len(cfg['threads']) > 1:
      for i in range(len(cfg['threads'])):
        c = copy.deepcopy(cfg); del c['threads'][i]; yield c
    for i, ops in enumerate(cfg['threads']):
      if len(ops) > 1:
        for j in range(len(ops)):
          c = copy.deepcopy(cfg); del c['threads'][i][j]; yield c

  def nontrivial(self, cfg, out):
    return out['switches'] > 2


# --------------------------------------------------------------------------
class OwnershipFamily(common.Family):
  prop = 'C20'
  name = 'ownership'

  def gen(self, rng, tier):
    npools = rng.choice([2, 2, 3])
    nworkers = rng.choice([1, 1, 2, 3])
    threads = []
    for p in range(npools):
      ops = []
      for _ in range(rng.randrange(2, 7)):
        k = rng.choice(['acquire_by', 'acquire_all', 'next_idle', 'release_all',
                        'release_subset', 'hold'])
        ops.append({'op': k, 'w': rng.randrange(nworkers)})
      threads.append({'pool': p, 'ops': ops})
    if rng.random() < 0.3:
      # a second thread working on behalf of an existing pool
      threads.append({'pool': 0, 'ops': [
          {'op': rng.choice(['acquire_by', 'release_all', 'next_idle']),
           'w': rng.randrange(nworkers)} for _ in range(rng.randrange(1, 4))]})
    return {'npools': npools, 'nworkers': nworkers, 'threads': threads,
            'sim': {'fine': rng.random() < 0.5,
                    'stay': rng.choice([0.0, 0.0, 0.5])}}

  def drive(self, cfg, sim):
    import threading
    import time
    from ml_metrics._src.chainables import courier_worker
    from ml_metrics._src.utils import courier_utils
    reg = courier_utils.worker_registry()
    names = [f'x{i}' for i in range(cfg['nworkers'])]
    for n in names:
      reg.register(n, time.time())          # all workers look alive
    pools = [courier_worker.WorkerPool(names, heartbeat_threshold_secs=10_000)
             for _ in range(cfg['npools'])]
    workers = pools[0].all_workers
    for p in pools:
      assert all(a is b for a, b in zip(p.all_workers, workers))
    # what each pool believes it owns (set after a successful acquire by one of
    # its threads, cleared before it releases)
    owned = [set() for _ in pools]
    problems = []
    multi = sum(1 for t in cfg['threads'] if t['pool'] == 0) > 1

    def note(kind, msg):
      problems.append([kind, msg])

    def acquired(p, w):
      for q, s in enumerate(owned):
        if multi and 0 in (p, q):
          continue   # pool 0's belief is not reliable with two threads
        if q != p and w in s:
          note('double-ownership',
               f'pool {p} acquired {names[w]} while pool {q} holds it')
      owned[p].add(w)

    def verify(p):
      if multi and p == 0:
        return   # two threads act for pool 0: they may release each other's
      for w in list(owned[p]):
        if not workers[w].is_locked(pools[p]):
          note('lost-ownership',
               f'pool {p} holds {names[w]} but it is no longer locked by it '
               f'(locked={workers[w]._lock.locked()}, '  # pylint: disable=protected-access
               f'owner is pool {pools.index(workers[w].worker_pool) if workers[w].worker_pool in pools else None})')
          owned[p].discard(w)

    def run(spec):
      p = spec['pool']
      pool = pools[p]
      for op in spec['ops']:
        k, w = op['op'], op['w']
        verify(p)
        if k == 'acquire_by':
          if workers[w].acquire_by(pool):
            acquired(p, w)
        elif k == 'acquire_all':
          for wk in pool._acquire_all():  # pylint: disable=protected-access
            acquired(p, workers.index(wk))
        elif k == 'next_idle':
          wk = pool.next_idle_worker(maybe_acquire=True)
          if wk is not None and wk.is_locked(pool):
            acquired(p, workers.index(wk))
        elif k == 'release_all':
          if not (multi and p == 0):
            owned[p].clear()
          else:
            owned[p].clear()
          pool.release_all()
          left = [wk.address for wk in pool.acquired_workers]
          if left and not (multi and p == 0):
            note('not-released', f'pool {p} release_all() left {left}')
        elif k == 'release_subset':
          owned[p].discard(w)
          pool.release_all([workers[w]])
        elif k == 'hold':
          time.sleep(0)
        verify(p)

    ts = [threading.Thread(target=run, args=(spec,), name=f'pool{spec["pool"]}-{i}')
          for i, spec in enumerate(cfg['threads'])]
    for t in ts:
      t.start()
    for t in ts:
      t.join()
    return {'problems': problems}

  def check(self, cfg, out):
    dl = common.deadlock_violation(out)
    if dl:
      return [dl]
    if out.get('failure') is not None:
      return []
    if 'error' in out:
      e = out['error']
      return [v('driver', f'ownership:{type(e).__name__}', repr(e))]
    res = []
    seen = set()
    for kind, msg in out['value']['problems']:
      if kind not in seen:
        seen.add(kind)
        res.append(v('ownership', kind, msg))
    return res

  def shrink(self, cfg):
    if cfg['sim'].get('fine'):
      c = copy.deepcopy(cfg); c['sim']['fine'] = False; yield c
    if len(cfg['threads']) > 2:
      for i in range(len(cfg['threads'])):
        c = copy.deepcopy(cfg); del c['threads'][i]; yield c
    for i, t in enumerate(cfg['threads']):
      if len(t['ops']) > 1:
        for j in range(len(t['ops'])):
          c = copy.deepcopy(cfg); del c['threads'][i]['ops'][j]; yield c
    if cfg['nworkers'] > 1 and all(
        op['w'] < cfg['nworkers'] - 1 for t in cfg['threads'] for op in t['ops']):
      c = copy.deepcopy(cfg); c['nworkers'] -= 1; yield c

  def nontrivial(self, cfg, out):
    return out['switches'] > 2


# --------------------------------------------------------------------------
class PoolOpsFamily(common.Family):
  pct_ok = False   # timed oracles: see harness.run_random
  prop = 'C20'
  name = 'poolops'

  def gen(self, rng, tier):
    n = rng.choice([1, 2, 3])
    cfg = {
        'workers': n,
        # as_completed: a stream of `n` tasks of which the caller takes `take`
        # and then closes the generator (take == n: consumed to the end)
        'ops': [{'op': rng.choice(['run', 'run', 'call_and_wait',
                                   'as_completed']),
                 'fail': rng.random() < 0.4,
                 'i': rng.randrange(10),
                 'n': rng.randrange(1, 5), 'take': rng.randrange(0, 5)}
                for _ in range(rng.randrange(1, 4))],
        'call_timeout': 5, 'hb': 120, 'plan': [], 'timed': [],
        'sim': {'fine': rng.random() < 0.15,
                'stay': rng.choice([0.0, 0.5, 0.8])},
    }
    if rng.random() < 0.6:
      # Workers leave (gracefully or not) while an operation holds them: the
      # operation must still hand back every worker, dead or alive.
      cfg['call_timeout'] = rng.choice([5, 5, 200])  # 0 = wait for ever, by design
      cfg['hb'] = rng.choice([70, 120])
      for _ in range(rng.choice([1, 1, 2])):
        f = {'addr': f'w{rng.randrange(n)}', 'method': 'maybe_make',
             'nth': rng.choice([1, 1, 2, 3]),
             'kind': rng.choice(['goodbye', 'goodbye', 'death', 'death_after',
                                 'drop_reply', 'restart'])}
        if f['kind'] == 'goodbye':
          f['secs'] = rng.choice([0.0, 1.0, 10.0, 400.0])
        if f['kind'] == 'restart':
          f['after'] = rng.choice([1.0, 30.0, 200.0])
        cfg['plan'].append(f)
      if rng.random() < 0.4:
        # ... or at an arbitrary scheduling step, not tied to a call
        cfg['timed'].append({'w': f'w{rng.randrange(n)}',
                             'steps': rng.choice([5, 20, 50, 100, 200, 400]),
                             'kind': rng.choice(['goodbye', 'death'])})
    return cfg

  def drive(self, cfg, sim):
    import threading
    import courier
    from ml_metrics._src.chainables import courier_worker, lazy_fns
    from scenarios import faults
    from scenarios import remote_lib as L
    cl = cluster.Cluster(n_workers=cfg['workers'], prefetched=False, host=True)
    pool = courier_worker.WorkerPool(cl.addresses(),
                                     call_timeout=cfg.get('call_timeout', 5),
                                     heartbeat_threshold_secs=cfg.get('hb', 120))
    pool.wait_until_alive(deadline_secs=120, minimum_num_workers=cfg['workers'])
    if cfg.get('plan'):
      courier.NET.policy = faults.PlanPolicy(sim, cfg['plan'], cl)
    for tf in cfg.get('timed', ()):
      def inject(tf=tf):
        sim.wait_steps(tf['steps'])
        if courier.NET.is_dead(cl.node_of(tf['w'])):
          return
        sim.count('fault:timed_' + tf['kind'])
        if tf['kind'] == 'goodbye':
          cl.servers[tf['w']].stop()
        else:
          cl.kill(tf['w'])
      with cluster.node('injector'):
        threading.Thread(target=inject, name='injector', daemon=True).start()
    log = []
    for op in cfg['ops']:
      task = lazy_fns.trace(L.task_fn)(op['i'], fail=op['i'] if op['fail'] else None)
      try:
        if op['op'] == 'run':
          r = pool.run(task)
        elif op['op'] == 'as_completed':
          from ml_metrics._src.chainables import orchestrate
          n = op.get('n', 1)
          tasks = [lazy_fns.trace(L.task_fn)(
              op['i'] + t, fail=op['i'] if op['fail'] else None)
                   for t in range(n)]
          gen = orchestrate.as_completed(pool, tasks)
          r = []
          for x in gen:
            if len(r) >= op.get('take', n):
              break
            r.append(x)
          gen.close()
        else:
          r = pool.call_and_wait(task)
        end = ['ok', repr(r)]
      except Exception as e:  # pylint: disable=broad-exception-caught
        end = ['exc', type(e).__name__, str(e)[:120]]
      log.append({'op': op['op'], 'end': end,
                  'acquired': [w.address for w in pool.acquired_workers]})
      # clean up for the next operation
      pool.release_all()
    cl.stop_all(join=False)
    return {'log': log}

  def check(self, cfg, out):
    dl = common.deadlock_violation(out)
    if dl:
      return [dl]
    if out.get('failure') is not None:
      return []
    if 'error' in out:
      e = out['error']
      return [v('driver', f'poolops:{type(e).__name__}', repr(e))]
    res = []
    seen = set()
    for op, rec in zip(cfg['ops'], out['value']['log']):
      how = 'raises' if rec['end'][0] == 'exc' else 'returns'
      if rec['acquired']:
        sig = f"still-acquired:{rec['op']}:{how}"
        if sig not in seen:
          seen.add(sig)
          res.append(v('pool-ops', sig,
                       f"{rec['op']} {how} ({rec['end']}) and leaves "
                       f"{rec['acquired']} acquired"))
      if op['fail'] and rec['end'][0] != 'exc' and not (
          op['op'] == 'as_completed' and op.get('take', 9) < op.get('n', 1)):
        res.append(v('pool-ops', f"error-swallowed:{rec['op']}", f'{rec}'))
    return res

  def shrink(self, cfg):
    if cfg['sim'].get('fine'):
      c = copy.deepcopy(cfg); c['sim']['fine'] = False; yield c
    if len(cfg['ops']) > 1:
      for i in range(len(cfg['ops'])):
        c = copy.deepcopy(cfg); del c['ops'][i]; yield c
    for k in ('plan', 'timed'):
      for i in range(len(cfg.get(k, ()))):
        c = copy.deepcopy(cfg); del c[k][i]; yield c
    if cfg['workers'] > 1:
      c = copy.deepcopy(cfg); c['workers'] -= 1; yield c

  def nontrivial(self, cfg, out):
    return out['switches'] > 5


# --------------------------------------------------------------------------
from scenarios import c16 as _c16  # pylint: disable=g-import-not-at-top


class DistReleaseFamily(_c16.DistFamily):
  """The fault-free distributed drivers of C16, judged on one thing only:
  when the pool-level operation returns, none of its workers stays acquired."""
  prop = 'C20'
  name = 'distrelease'

  def gen(self, rng, tier):
    cfg = super().gen(rng, tier)
    if cfg['mode'] == 'strict':
      cfg['mode'] = rng.choice(['sharded', 'interleaved'])
    return cfg

  def check(self, cfg, out):
    if out.get('failure') is not None or 'error' in out:
      return []
    obs = out['value']
    if obs.get('acquired') or obs.get('locked'):
      return [v('pool-ops', f"workers-not-released:{cfg['mode']}",
                f"{cfg['mode']} run returned and left acquired="
                f"{obs['acquired']} locked={obs['locked']}")]
    return []


FAMILIES = {'registry': RegistryFamily(), 'ownership': OwnershipFamily(),
            'poolops': PoolOpsFamily(), 'distrelease': DistReleaseFamily()}
