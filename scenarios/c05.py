"""C05 — failures and stop requests propagate through queues without hanging.

Faults: (fail) a producer's iterator raises at a swept position; (stop) an
external `maybe_stop()` / `maybe_stop(exc)` arrives at a drawn scheduling step,
biased to moments when a producer is blocked on a full buffer or a consumer is
waiting; (timeout) a starving peer with `timeout` configured.
"""

from __future__ import annotations

import copy

from scenarios import common
from scenarios import c04
from scenarios.common import v

# (Empty / QueueEmpty / TimeoutError / StopAsyncIteration: exception types the
# queue itself uses for its control flow; a producer's iterator may raise them
# as well, e.g. one that polls another queue)
EXC_TYPES = ('ValueError', 'RuntimeError', 'KeyError', 'ZeroDivisionError',
             'ValueError', 'RuntimeError', 'Empty', 'QueueEmpty', 'TimeoutError')


def _exc(name, msg):
  import asyncio
  import queue
  return {'ValueError': ValueError, 'RuntimeError': RuntimeError,
          'KeyError': KeyError, 'ZeroDivisionError': ZeroDivisionError,
          'TimeoutError': TimeoutError, 'Empty': queue.Empty,
          'QueueEmpty': asyncio.QueueEmpty}[name](msg)


def _subset_nodup(got, produced):
  got_ms = common.multiset(got)
  prod_ms = common.multiset(produced)
  extra = got_ms - prod_ms
  return not extra, dict(extra)


def _base_cfg(rng, min_items=0, max_items=6):
  P = rng.choice([1, 2, 2, 3, 3, 4])
  C = rng.choice([1, 1, 2, 2, 3])
  return {
      'P': P,
      'items': [rng.randrange(min_items, max_items + 1) for _ in range(P)],
      'rets': [rng.random() < 0.5 for _ in range(P)],
      'C': C,
      'modes': [rng.choice(c04.MODES) for _ in range(C)],
      'ks': [rng.choice([0, 1, 2, 3, 5]) for _ in range(C)],
      'cap': rng.choice([0, 1, 1, 1, 2, 3]),
      'pool': rng.random() < 0.3,
      'sim': {'fine': rng.random() < 0.25,
              'stay': rng.choice([0.0, 0.0, 0.5, 0.8])},
  }


def _consumer(q, cfg, c, got, ends, t_end=None):
  import time
  mode, k = cfg['modes'][c], cfg['ks'][c]
  try:
    if mode == 'iter':
      it = iter(q)
      while True:
        got[c].append(next(it))
    while True:
      if mode == 'get':
        got[c].append(q.get())
      elif mode == 'batch_nb':
        got[c].extend(q.get_batch(k, block=False))
      elif mode == 'batch_b':
        got[c].extend(q.get_batch(k, block=True))
      else:
        raise AssertionError(mode)
  except StopIteration as e:
    ends[c] = ['stop', [repr(a) for a in e.args]]
  except Exception as e:  # pylint: disable=broad-exception-caught
    ends[c] = ['exc', type(e).__name__, str(e)]
  if t_end is not None:
    t_end[c] = time.monotonic()


def _start_all(sim, starters):
  order = list(range(len(starters)))
  for i in range(len(order) - 1, 0, -1):
    j = sim.choose(i + 1, 'o')
    order[i], order[j] = order[j], order[i]
  for i in order:
    starters[i]()


def _shrink_common(cfg, min_items=0):
  if cfg['sim'].get('fine'):
    c = copy.deepcopy(cfg); c['sim']['fine'] = False; yield c
  if cfg.get('pool'):
    c = copy.deepcopy(cfg); c['pool'] = False; yield c
  if cfg['C'] > 1:
    for drop in range(cfg['C']):
      c = copy.deepcopy(cfg)
      c['C'] -= 1
      del c['modes'][drop]
      del c['ks'][drop]
      yield c
  for i, m in enumerate(cfg['modes']):
    if m != 'get':
      c = copy.deepcopy(cfg); c['modes'][i] = 'get'; yield c
  for i, k in enumerate(cfg['ks']):
    if k > 1:
      c = copy.deepcopy(cfg); c['ks'][i] = k - 1; yield c
  if cfg['cap'] > 1:
    c = copy.deepcopy(cfg); c['cap'] -= 1; yield c


class FailFamily(common.Family):
  """A producer's iterator raises after `fail_i` items."""
  prop = 'C05'
  name = 'fail'

  def gen(self, rng, tier):
    cfg = _base_cfg(rng)
    p = rng.randrange(cfg['P'])
    cfg['fail_p'] = p
    cfg['fail_i'] = rng.randrange(0, cfg['items'][p] + 1)
    cfg['fail_type'] = rng.choice(EXC_TYPES)
    # A consumer that sees the failure may issue a plain stop on its way out,
    # as MultiplexIterator.__next__ does; the others must still see the failure.
    cfg['stop_on_error'] = rng.random() < 0.4
    return cfg

  def drive(self, cfg, sim):
    import queue
    import threading
    from concurrent import futures
    from ml_metrics._src.utils import iter_utils

    P, C, cap = cfg['P'], cfg['C'], cfg['cap']
    base = queue.Queue(cap) if cap else queue.SimpleQueue()
    rq = common.RecordingQueue(base)
    q = iter_utils.IteratorQueue(rq, name='q', max_enqueuer=P)
    got = [[] for _ in range(C)]
    ends = [None] * C
    prod = [None] * P

    def gen(p):
      for i in range(cfg['items'][p]):
        if p == cfg['fail_p'] and i == cfg['fail_i']:
          sim.count('fault:producer_raise')
          raise _exc(cfg['fail_type'], 'injected')
        yield (p, i)
      if p == cfg['fail_p']:
        sim.count('fault:producer_raise')
        raise _exc(cfg['fail_type'], 'injected')
      if cfg['rets'][p]:
        return ('ret', p)

    def produce(p):
      try:
        q.enqueue_from_iterator(gen(p))
        prod[p] = ['ok']
      except Exception as e:  # pylint: disable=broad-exception-caught
        prod[p] = ['exc', type(e).__name__, str(e)]

    def consume(c):
      _consumer(q, cfg, c, got, ends)
      if cfg.get('stop_on_error') and ends[c] and ends[c][0] == 'exc':
        sim.count('fault:stop_after_failure')
        q.maybe_stop()

    cs = [threading.Thread(target=consume, args=(c,), name=f'cons{c}')
          for c in range(C)]
    pool = None
    if cfg['pool']:
      pool = futures.ThreadPoolExecutor(max_workers=P, thread_name_prefix='pp')
      starters = [lambda p=p: pool.submit(produce, p) for p in range(P)]
      ps = []
    else:
      ps = [threading.Thread(target=produce, args=(p,), name=f'prod{p}')
            for p in range(P)]
      starters = [t.start for t in ps]
    starters += [t.start for t in cs]
    # probe: somebody is blocked in put at the moment the failure is recorded
    _start_all(sim, starters)
    for t in ps + cs:
      t.join()
    if pool is not None:
      pool.shutdown(wait=True)
    return {'got': got, 'ends': ends, 'prod': prod, 'puts': rq.puts,
            'gets': rq.gets}

  def check(self, cfg, out):
    dl = common.deadlock_violation(out)
    if dl:
      return [dl]
    if out.get('failure') is not None:
      return []
    if 'error' in out:
      e = out['error']
      return [v('driver', f'driver-error:{type(e).__name__}', repr(e))]
    obs = out['value']
    res = []
    want = ['exc', cfg['fail_type'], str(_exc(cfg['fail_type'], 'injected'))]
    for c, end in enumerate(obs['ends']):
      mode = cfg['modes'][c]
      if end is None:
        res.append(v('propagation', f'no-end:{mode}', f'consumer {c}'))
      elif end[0] == 'stop':
        res.append(v('propagation', f'clean-end-of-stream:{mode}',
                     f'consumer {c} saw StopIteration{end[1]} although producer '
                     f"{cfg['fail_p']} raised"))
      elif end != want:
        res.append(v('propagation', f'other-exception:{mode}:{end[1]}',
                     f'consumer {c} saw {end}, expected {want}'))
    allgot = [tuple(x) for g in obs['got'] for x in g]
    ok, extra = _subset_nodup(allgot, c04.expected_items(cfg))
    if not ok:
      res.append(v('no-duplicate', 'dup', f'extra={extra}'))
    for p, st in enumerate(obs['prod']):
      if p == cfg['fail_p']:
        if st != want:
          res.append(v('producer', 'failing-producer-outcome',
                       f'producer {p}: {st}, expected {want}'))
      elif st != ['ok']:
        res.append(v('producer', 'other-producer-did-not-return',
                     f'producer {p}: {st}'))
    left = common.leftover_repo_threads(out)
    if left:
      res.append(v('thread-leak', common.blocked_sig(left), f'{left}'))
    return res

  def shrink(self, cfg):
    yield from _shrink_common(cfg)
    P = cfg['P']
    if P > 1:
      for drop in range(P):
        if drop == cfg['fail_p']:
          continue
        c = copy.deepcopy(cfg)
        c['P'] -= 1
        del c['items'][drop]
        del c['rets'][drop]
        if drop < c['fail_p']:
          c['fail_p'] -= 1
        yield c
    for p in range(P):
      if cfg['items'][p] > 0 and not (p == cfg['fail_p'] and
                                      cfg['fail_i'] >= cfg['items'][p]):
        c = copy.deepcopy(cfg); c['items'][p] -= 1; yield c
    if cfg['fail_i'] > 0:
      c = copy.deepcopy(cfg); c['fail_i'] -= 1; yield c

  def nontrivial(self, cfg, out):
    return out['switches'] > 2 and out['counters'].get('fault:producer_raise', 0) > 0


class AsyncFailFamily(FailFamily):
  """The same on an AsyncIteratorQueue fed by coroutines (and threads).

  Producers are coroutines on one event loop running
  `async_enqueue_from_iterator` over async generators, mixed with threads
  running `enqueue_from_iterator`; consumers are threads.  The queue counts its
  enqueuers as they register (no max_enqueuer on this class), so every source
  first waits until all producers have registered: a producer that registers
  after the others are done is a different scenario.
  """
  name = 'afail'

  def gen(self, rng, tier):
    cfg = super().gen(rng, tier)
    cfg['pool'] = False
    cfg['stop_on_error'] = False
    kinds = [rng.choice(['async', 'async', 'sync']) for _ in range(cfg['P'])]
    if 'async' not in kinds:
      kinds[rng.randrange(cfg['P'])] = 'async'
    cfg['kinds'] = kinds
    cfg['yield_between'] = rng.random() < 0.5
    return cfg

  def drive(self, cfg, sim):
    import asyncio
    import threading
    import time
    from concurrent import futures
    from ml_metrics._src.utils import iter_utils

    P, C, cap = cfg['P'], cfg['C'], cfg['cap']
    pool = futures.ThreadPoolExecutor(max_workers=P + 2,
                                      thread_name_prefix='aqpool')
    q = iter_utils.AsyncIteratorQueue(cap, name='q', thread_pool=pool)
    loop = asyncio.new_event_loop()
    lt = threading.Thread(target=loop.run_forever, name='loop')
    lt.start()
    got = [[] for _ in range(C)]
    ends = [None] * C
    prod = [None] * P
    reg = {'n': 0}

    def fail_here(p, i):
      if p == cfg['fail_p'] and i == cfg['fail_i']:
        sim.count('fault:producer_raise')
        raise _exc(cfg['fail_type'], 'injected')

    def gen(p):
      reg['n'] += 1
      while reg['n'] < P:
        time.sleep(0.001)
      for i in range(cfg['items'][p]):
        fail_here(p, i)
        yield (p, i)
      fail_here(p, cfg['items'][p])
      if cfg['rets'][p]:
        return ('ret', p)

    class ASource:
      def __init__(self, p):
        self.p, self.i, self.started = p, 0, False

      def __aiter__(self):
        return self

      async def __anext__(self):
        if not self.started:
          self.started = True
          reg['n'] += 1
          while reg['n'] < P:
            await asyncio.sleep(0.001)
        if cfg['yield_between']:
          await asyncio.sleep(0)
        p = self.p
        fail_here(p, self.i)
        if self.i >= cfg['items'][p]:
          if cfg['rets'][p]:
            raise StopAsyncIteration(('ret', p))
          raise StopAsyncIteration()
        self.i += 1
        return (p, self.i - 1)

    def produce(p):
      try:
        q.enqueue_from_iterator(gen(p))
        prod[p] = ['ok']
      except Exception as e:  # pylint: disable=broad-exception-caught
        prod[p] = ['exc', type(e).__name__, str(e)]

    afuts = {}
    ps = []
    starters = []
    for p in range(P):
      if cfg['kinds'][p] == 'async':
        def start(p=p):
          afuts[p] = asyncio.run_coroutine_threadsafe(
              q.async_enqueue_from_iterator(ASource(p)), loop)
        starters.append(start)
      else:
        t = threading.Thread(target=produce, args=(p,), name=f'prod{p}')
        ps.append(t)
        starters.append(t.start)
    cs = [threading.Thread(target=_consumer, args=(q, cfg, c, got, ends),
                           name=f'cons{c}') for c in range(C)]
    starters += [t.start for t in cs]
    _start_all(sim, starters)
    for t in ps + cs:
      t.join()
    for p, f in afuts.items():
      try:
        f.result()
        prod[p] = ['ok']
      except Exception as e:  # pylint: disable=broad-exception-caught
        prod[p] = ['exc', type(e).__name__, str(e)]
    loop.call_soon_threadsafe(loop.stop)
    lt.join()
    loop.close()
    pool.shutdown(wait=True)
    return {'got': got, 'ends': ends, 'prod': prod, 'puts': [], 'gets': []}

  def shrink(self, cfg):
    for c in super().shrink(cfg):
      if len(c.get('kinds', ())) != c['P']:
        # a producer was dropped: drop its kind too (same index rule as items)
        continue
      yield c
    for p, k in enumerate(cfg['kinds']):
      if k == 'async' and cfg['kinds'].count('async') > 1:
        c = copy.deepcopy(cfg); c['kinds'][p] = 'sync'; yield c


class StopFamily(common.Family):
  """An external maybe_stop() / maybe_stop(exc) arrives at a drawn moment."""
  prop = 'C05'
  name = 'stop'

  def gen(self, rng, tier):
    cfg = _base_cfg(rng, min_items=2, max_items=9)
    cfg['stop_exc'] = rng.choice([None, None, 'RuntimeError', 'ValueError'])
    cfg['trigger'] = rng.choice(['steps', 'steps', 'blocked_put', 'blocked_get'])
    cfg['delay'] = rng.randrange(0, 250)
    # In a third of the runs the stop request may arrive before some producer
    # has even registered with the queue (a stop is permanent: such a producer
    # must return at once instead of reviving the queue).
    cfg['early'] = rng.random() < 0.33
    return cfg

  def drive(self, cfg, sim):
    import queue
    import threading
    from concurrent import futures
    from ml_metrics._src.utils import iter_utils

    P, C, cap = cfg['P'], cfg['C'], cfg['cap']
    base = queue.Queue(cap) if cap else queue.SimpleQueue()
    rq = common.RecordingQueue(base)
    q = iter_utils.IteratorQueue(rq, name='q', max_enqueuer=P)
    got = [[] for _ in range(C)]
    ends = [None] * C
    prod = [None] * P
    info = {'rq': rq}

    def gen(p):
      for i in range(cfg['items'][p]):
        yield (p, i)
      if cfg['rets'][p]:
        return ('ret', p)

    def produce(p):
      try:
        q.enqueue_from_iterator(gen(p))
        prod[p] = ['ok']
      except Exception as e:  # pylint: disable=broad-exception-caught
        prod[p] = ['exc', type(e).__name__, str(e)]

    def stopper():
      # The stop request is only issued once every producer has registered;
      # a producer that starts after a plain stop is a different scenario.
      if not cfg.get('early'):
        sim.wait_until(lambda: q._enqueue_start >= P, 5000)
      elif q._enqueue_start < P:
        sim.count('probe:stop_before_all_producers_registered')
      trig = cfg['trigger']
      if trig == 'blocked_put':
        r = sim.wait_until(lambda: bool(sim.threads_in('put')), cfg['delay'] + 50)
        info['trigger_hit'] = r == 'pred'
      elif trig == 'blocked_get':
        r = sim.wait_until(
            lambda: bool(sim.threads_in('get') or sim.threads_in('get_batch')),
            cfg['delay'] + 50)
        info['trigger_hit'] = r == 'pred'
      else:
        sim.wait_steps(cfg['delay'])
      info['blocked_put'] = len(sim.threads_in('put'))
      info['blocked_get'] = len(sim.threads_in('get')) + len(
          sim.threads_in('get_batch'))
      info['exhausted_before'] = q.exhausted
      info['done_before'] = q.enqueue_done
      sim.count('fault:stop_request')
      if info['blocked_put']:
        sim.count('probe:stop_while_producer_blocked')
      if info['blocked_get']:
        sim.count('probe:stop_while_consumer_blocked')
      try:
        if cfg['stop_exc']:
          q.maybe_stop(_exc(cfg['stop_exc'], 'stopped'))
        else:
          q.maybe_stop()
        info['stopper'] = 'ok'
      except Exception as e:  # pylint: disable=broad-exception-caught
        info['stopper'] = f'exc:{type(e).__name__}:{e}'

    cs = [threading.Thread(target=_consumer, args=(q, cfg, c, got, ends),
                           name=f'cons{c}') for c in range(C)]
    pool = None
    if cfg['pool']:
      pool = futures.ThreadPoolExecutor(max_workers=P, thread_name_prefix='pp')
      starters = [lambda p=p: pool.submit(produce, p) for p in range(P)]
      ps = []
    else:
      ps = [threading.Thread(target=produce, args=(p,), name=f'prod{p}')
            for p in range(P)]
      starters = [t.start for t in ps]
    st = threading.Thread(target=stopper, name='stopper')
    starters += [t.start for t in cs] + [st.start]
    _start_all(sim, starters)
    for t in ps + cs + [st]:
      t.join()
    if pool is not None:
      pool.shutdown(wait=True)
    info.pop('rq')
    return {'got': got, 'ends': ends, 'prod': prod, 'info': info,
            'puts': rq.puts, 'gets': rq.gets}

  def check(self, cfg, out):
    dl = common.deadlock_violation(out)
    if dl:
      return [dl]
    if out.get('failure') is not None:
      return []
    if 'error' in out:
      e = out['error']
      return [v('driver', f'driver-error:{type(e).__name__}', repr(e))]
    obs = out['value']
    info = obs['info']
    res = []
    if info.get('stopper') != 'ok':
      res.append(v('stop', 'stopper-raised', f"{info.get('stopper')}"))
    allgot = [tuple(x) for g in obs['got'] for x in g]
    # A consumer can only see the normal end of the stream if every producer
    # finished before the stop took effect, i.e. every item was enqueued.  (It
    # does not imply that every item was *delivered*: another consumer may
    # still hold a partial batch, which a later maybe_stop(exc) makes it drop.)
    complete = (common.multiset(tuple(x) for x in obs['puts'])
                == common.multiset(c04.expected_items(cfg)))
    for c, end in enumerate(obs['ends']):
      mode = cfg['modes'][c]
      if end is None:
        res.append(v('stop', f'no-end:{mode}', f'consumer {c}'))
        continue
      if cfg['stop_exc']:
        want = ['exc', cfg['stop_exc'], 'stopped']
        # The stream may have ended normally before the stop request took
        # effect; then (and only then) StopIteration is the right outcome, and
        # it implies that every produced element was delivered.
        if end != want and not (end[0] == 'stop' and complete):
          res.append(v('stop', f'consumer-outcome:{mode}:{end[0]}',
                       f'consumer {c} saw {end}, expected {want} '
                       f'(every item enqueued={complete})'))
      elif end[0] != 'stop':
        res.append(v('stop', f'consumer-outcome:{mode}:{end[1]}',
                     f'consumer {c} saw {end} after a plain stop'))
    ok, extra = _subset_nodup(allgot, c04.expected_items(cfg))
    if not ok:
      res.append(v('no-duplicate', 'dup', f'extra={extra}'))
    for p, st in enumerate(obs['prod']):
      if st != ['ok']:
        res.append(v('producer', 'producer-did-not-return', f'producer {p}: {st}'))
    left = common.leftover_repo_threads(out)
    if left:
      res.append(v('thread-leak', common.blocked_sig(left), f'{left}'))
    return res

  def shrink(self, cfg):
    yield from _shrink_common(cfg)
    P = cfg['P']
    if P > 1:
      for drop in range(P):
        c = copy.deepcopy(cfg)
        c['P'] -= 1
        del c['items'][drop]
        del c['rets'][drop]
        yield c
    for p in range(P):
      if cfg['items'][p] > 0:
        c = copy.deepcopy(cfg); c['items'][p] -= 1; yield c
    if cfg['delay'] > 0:
      c = copy.deepcopy(cfg); c['delay'] //= 2; yield c
    if cfg['trigger'] != 'steps':
      c = copy.deepcopy(cfg); c['trigger'] = 'steps'; yield c

  def nontrivial(self, cfg, out):
    return out['switches'] > 2 and out['counters'].get('fault:stop_request', 0) > 0


class TimeoutFamily(common.Family):
  """A starved get or put with `timeout` configured raises TimeoutError."""
  prop = 'C05'
  name = 'timeout'
  max_steps = 200_000

  def gen(self, rng, tier):
    cfg = _base_cfg(rng, min_items=0, max_items=5)
    cfg['P'] = 1
    cfg['items'] = cfg['items'][:1]
    cfg['rets'] = cfg['rets'][:1]
    cfg['pool'] = False
    cfg['side'] = rng.choice(['get', 'put'])
    cfg['tau'] = rng.choice([0.25, 1.0, 7.5, 60.0])
    if cfg['side'] == 'put':
      cfg['cap'] = rng.choice([1, 1, 2, 3])
      # consumers take a few elements, then stop consuming
      cfg['take'] = rng.randrange(0, 3)
      cfg['items'] = [cfg['cap'] + cfg['take'] + rng.randrange(1, 4)]
      # several producers can be starved on the same full queue
      cfg['P'] = rng.choice([1, 1, 2, 3])
      cfg['items'] = cfg['items'] * cfg['P']
      cfg['rets'] = cfg['rets'] * cfg['P']
      cfg['C'] = 1
      cfg['modes'] = cfg['modes'][:1]
      cfg['ks'] = cfg['ks'][:1]
    return cfg

  def drive(self, cfg, sim):
    import queue
    import threading
    import time
    from ml_metrics._src.utils import iter_utils

    C, cap, tau = cfg['C'], cfg['cap'], cfg['tau']
    base = queue.Queue(cap) if cap else queue.SimpleQueue()
    P = cfg['P']
    q = iter_utils.IteratorQueue(base, name='q', max_enqueuer=P, timeout=tau)
    got = [[] for _ in range(C)]
    ends = [None] * C
    t_end = [None] * C
    t_start = [None] * C
    prod = [None] * P
    t_prod = [[None, None] for _ in range(P)]
    release = threading.Event()

    def gen(p):
      for i in range(cfg['items'][p]):
        yield (p, i)
      if cfg['side'] == 'get':
        # Starve the consumers: stop producing without finishing.
        sim.count('fault:starve_consumers')
        release.wait()
      if cfg['rets'][p]:
        return ('ret', p)

    def produce(p=0):
      t_prod[p][0] = time.monotonic()
      try:
        q.enqueue_from_iterator(gen(p))
        prod[p] = ['ok']
      except Exception as e:  # pylint: disable=broad-exception-caught
        prod[p] = ['exc', type(e).__name__, str(e)]
      t_prod[p][1] = time.monotonic()

    def consume(c):
      t_start[c] = time.monotonic()
      if cfg['side'] == 'put':
        sim.count('fault:starve_producer')
        try:
          for _ in range(cfg['take']):
            got[c].append(q.get())
        except Exception as e:  # pylint: disable=broad-exception-caught
          ends[c] = ['exc', type(e).__name__, str(e)]
        return
      _consumer(q, cfg, c, got, ends, t_end)

    # Bounded liveness: once the peer has stalled nothing notifies the starved
    # side any more, so its timeout must fire; 200 timeouts later it has not.
    limit = 200 * tau + 1000.0
    sim.invariants.append(
        lambda: (f'starved side still blocked after {limit} simulated seconds '
                 f'(timeout={tau})') if sim.now > limit else None)
    cs = [threading.Thread(target=consume, args=(c,), name=f'cons{c}')
          for c in range(C)]
    pts = [threading.Thread(target=produce, args=(p,), name=f'prod{p}')
           for p in range(P)]
    _start_all(sim, [t.start for t in pts] + [t.start for t in cs])
    for t in cs:
      t.join()
    if cfg['side'] == 'get':
      release.set()
    for t in pts:
      t.join()
    return {'got': got, 'ends': ends, 'prod': prod, 't_end': t_end,
            't_start': t_start, 't_prod': t_prod}

  def check(self, cfg, out):
    dl = common.deadlock_violation(out)
    if dl:
      return [dl]
    f = out.get('failure')
    if f is not None and f.kind == 'invariant':
      where = common.blocked_sig(f.detail.get('threads', []))
      return [v('timeout', f"never-times-out:{cfg['side']}:{where}",
                str(f) + ' ' + str(f.detail)[:500])]
    if f is not None and f.kind == 'budget':
      # Bounded liveness in steps: the whole scenario takes some 10^4 steps;
      # a starved side that is still busy after 2*10^5 (threads waking each
      # other for ever, so that no wait ever runs into its timeout) will
      # never time out.
      return [v('timeout', f"never-times-out:{cfg['side']}:livelock",
                str(f) + ' ' + str(f.detail)[:600])]
    if out.get('failure') is not None:
      return []
    if 'error' in out:
      e = out['error']
      return [v('driver', f'driver-error:{type(e).__name__}', repr(e))]
    obs = out['value']
    res = []
    tau = cfg['tau']
    if cfg['side'] == 'get':
      for c, end in enumerate(obs['ends']):
        mode = cfg['modes'][c]
        if end is None or end[0] != 'exc' or end[1] != 'TimeoutError':
          res.append(v('timeout', f'starved-get-no-timeout:{mode}',
                       f'consumer {c} ended with {end}'))
        elif obs['t_end'][c] - obs['t_start'][c] < tau - 1e-3:
          res.append(v('timeout', f'early-timeout:{mode}',
                       f'consumer {c} timed out after '
                       f"{obs['t_end'][c] - obs['t_start'][c]:.3f}s < {tau}"))
    else:
      # every starved producer ends; at least one with the timeout error (it
      # fails the queue, the others may then simply stop and return)
      sts = obs['prod']
      timed = [p for p, st in enumerate(sts)
               if st and st[0] == 'exc' and st[1] == 'TimeoutError']
      bad = [st for st in sts if st is None or (
          st != ['ok'] and not (st[0] == 'exc' and st[1] == 'TimeoutError'))]
      if not timed or bad:
        res.append(v('timeout', 'starved-put-no-timeout', f'producers: {sts}'))
      elif min(obs['t_prod'][p][1] - obs['t_prod'][p][0] for p in timed) < tau - 1e-3:
        res.append(v('timeout', 'early-timeout:put',
                     f"{[obs['t_prod'][p] for p in timed]} < {tau}"))
    allgot = [tuple(x) for g in obs['got'] for x in g]
    ok, extra = _subset_nodup(allgot, c04.expected_items(cfg))
    if not ok:
      res.append(v('no-duplicate', 'dup', f'extra={extra}'))
    left = common.leftover_repo_threads(out)
    if left:
      res.append(v('thread-leak', common.blocked_sig(left), f'{left}'))
    return res

  def shrink(self, cfg):
    if cfg['side'] == 'get':
      yield from _shrink_common(cfg)
    if cfg['items'][0] > (cfg['cap'] + cfg['take'] + 1 if cfg['side'] == 'put' else 0):
      c = copy.deepcopy(cfg); c['items'][0] -= 1; yield c

  def nontrivial(self, cfg, out):
    return out['now'] >= cfg['tau']


FAMILIES = {'fail': FailFamily(), 'afail': AsyncFailFamily(), 'stop': StopFamily(),
            'timeout': TimeoutFamily()}
