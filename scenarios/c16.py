"""C16 — fault-free distributed execution equals in-process execution.

Everything above the simulated transport is real: WorkerPool.iterate,
sharded_pipelines_as_iterator (and its compute_result thread),
run_pipeline_interleaved with a worker pool, the master server,
RemoteIteratorQueue, async_iter, PrefetchedCourierServer, heartbeats through
the host server.  Message latencies are drawn; no other fault.
"""

from __future__ import annotations

import copy

from scenarios import common
from scenarios import cluster
from scenarios import pipes
from scenarios.common import v


class DistFamily(common.Family):
  pct_ok = False   # timed oracles: see harness.run_random
  prop = 'C16'
  name = 'dist'
  max_steps = 2_000_000

  def gen(self, rng, tier):
    mode = rng.choice(['sharded', 'sharded', 'interleaved', 'strict'])
    spec = pipes.gen_spec(rng, max_n=8, allow_sink=False)
    nops = len(spec['ops'])
    if rng.random() < 0.3:
      # aggregates on two named stages of a chain
      pipes.gen_early(rng, spec)
    cfg = {
        'mode': mode,
        'spec': spec,
        'workers': rng.choice([1, 2, 2, 3]),
        'shards': rng.choice([1, 2, 3, 4, 5]),
        'ibs': rng.choice([0, 1, 2, 3, 4]),   # 0 = as many as there are
        'prefetch': rng.choice([1, 2, 3, 4]),
        'buffer': rng.choice([0, 1, 2, 4]),
        'cut': rng.randrange(0, nops + 1),
        'latency': rng.choice([0, 1, 1]),
        'hb_threshold': rng.choice([200, 360]),
        # calls a worker accepts at a time (a prefetching server still runs
        # one generator at a time, whatever this says)
        'max_parallelism': rng.choice([1, 1, 2, 3]),
        # sharded mode without batch output: the caller only wants the
        # aggregate and gets one None per batch
        'no_batches': rng.random() < 0.2,
        'sim': {'fine': rng.random() < 0.1,
                'stay': rng.choice([0.0, 0.5, 0.8])},
    }
    # scale: a few sharded runs over a source longer than the 64-element
    # read-ahead of the sequence iterators, so that a worker's shard spans
    # several read-ahead blocks and ends inside one (drawn last: the other
    # dimensions of a seed are unchanged)
    if rng.random() < 0.03 and mode == 'sharded':
      spec['n'] = rng.randrange(65, 160)
      cfg['sim']['fine'] = False
      cfg['ibs'] = rng.choice([0, 4, 8])
    return cfg

  # ------------------------------------------------------------------------
  def drive(self, cfg, sim):
    import queue
    import courier
    from ml_metrics._src.chainables import courier_server, courier_worker
    from ml_metrics._src.chainables import orchestrate, transform

    spec = cfg['spec']
    mode = cfg['mode']
    # in-process reference
    it = pipes.define_sharded(spec).make().iterate()
    ref_out = [pipes.batch_key(b) for b in it]
    ref_res = pipes.norm_result(it.agg_result)
    obs = {'ref_out': ref_out, 'ref_res': ref_res, 'mode': mode}
    if mode == 'strict':
      # fewer shard states than expected must be reported, on both runners
      k = max(cfg['shards'], 2)
      states = []
      for i in range(k):
        it_ = pipes.define_sharded(spec, i, k).make().iterate()
        for _ in it_:
          pass
        states.append(it_.agg_state)
      outcomes = {}
      runner = pipes.define_sharded(spec).make()
      for name, r in (('chained', runner),
                      ('single', runner._runners[-1])):  # pylint: disable=protected-access
        try:
          r.merge_states(copy.deepcopy(states[:-1]), strict_states_cnt=k)
          outcomes[name] = 'no-error'
        except ValueError as e:
          outcomes[name] = f'ValueError:{str(e)[:60]}'
        try:
          merged = r.merge_states(copy.deepcopy(states), strict_states_cnt=k)
          outcomes[name + '_full'] = pipes.norm_result(runner.get_result(merged))
        except Exception as e:  # pylint: disable=broad-exception-caught
          outcomes[name + '_full'] = f'exc:{type(e).__name__}:{e}'
      obs['strict'] = outcomes
      return obs

    if cfg['latency']:
      class Lat(courier.Policy):
        def on_request(self, call):
          return sim.draw([0.0, 0.001, 0.01], 'lat'), False

        def on_reply(self, call):
          return sim.draw([0.0, 0.001, 0.01], 'lat'), False
      courier.NET.policy = Lat()
    cl = cluster.Cluster(n_workers=cfg['workers'], prefetched=True,
                         prefetch_size=cfg['prefetch'], host=True)
    pool = courier_worker.WorkerPool(
        cl.addresses(), call_timeout=0,
        heartbeat_threshold_secs=cfg['hb_threshold'],
        iterate_batch_size=cfg['ibs'],
        max_parallelism=cfg.get('max_parallelism', 1))
    if mode == 'sharded':
      rq = queue.SimpleQueue()
      outs = []
      if cfg.get('no_batches') and spec['aggs']:
        handed = list(orchestrate.sharded_pipelines_as_iterator(
            pool, pipes.define_sharded, spec, num_shards=cfg['shards'],
            result_queue=rq, with_batch_output=False))
        obs['placeholders'] = [len(handed), sum(1 for b in handed if b is not None)]
        # the in-process aggregate-only run hands out one None per batch
        it0 = pipes.define_sharded(spec).make().iterate(with_result=False)
        obs['ref_placeholders'] = [sum(1 for _ in it0), 0]
        outs = list(ref_out)
      else:
        for b in orchestrate.sharded_pipelines_as_iterator(
            pool, pipes.define_sharded, spec, num_shards=cfg['shards'],
            result_queue=rq):
          outs.append(pipes.batch_key(b))
      obs['out'] = outs
      results = []
      if spec['aggs']:
        results.append(rq.get())
      # "exactly one final aggregate result": nothing else may follow
      import time
      time.sleep(1.0)
      while not rq.empty():
        results.append(rq.get())
      obs['n_results'] = len(results)
      obs['res'] = pipes.norm_result(results[0].agg_result) if results else None
    else:
      master = None
      with cluster.node('master'):
        master = courier_server.CourierServer('master')
      # (early aggregates sit at the end of the first stage: same cut as in
      # the in-process reference)
      cut = spec['early']['cut'] if spec.get('early') else cfg['cut']
      p = pipes.build(spec, data_source=pipes.sequence_source(spec),
                      stages=[cut], name='st')
      names = list(p.named_transforms())
      resources = {names[0]: orchestrate.RunnerResource(buffer_size=cfg['buffer'])}
      for nm in names[1:]:
        resources[nm] = orchestrate.RunnerResource(
            worker_pool=pool, buffer_size=cfg['buffer'])
      obs['stages'] = len(names)
      with orchestrate.run_pipeline_interleaved(
          p, master_server=master, resources=resources) as r:
        obs['out'] = [pipes.batch_key(b) for b in r.result_queue]
      # every aggregating stage reports its own result on its own queue
      returned = [x for st in r.stages for x in st.result_queue.returned]
      agg_stages = sum(1 for _, t in p.named_transforms().items()
                       if t.make().has_agg)
      obs['n_results'] = len(returned) - max(agg_stages - 1, 0)
      merged = {}
      for x in returned:
        if isinstance(x, transform.AggregateResult) and x.agg_result:
          merged.update(x.agg_result)
      obs['res'] = pipes.norm_result(merged) if returned else None
      if master is not None and master.has_started:
        master.stop().join()
    obs['acquired'] = [w.address for w in pool.acquired_workers]
    obs['locked'] = [w.address for w in pool.all_workers if w.is_locked()]
    cl.stop_all()
    return obs

  # ------------------------------------------------------------------------
  def check(self, cfg, out):
    mode = cfg['mode']
    dl = common.deadlock_violation(out)
    if dl:
      dl['sig'] += f':{mode}'
      return [dl]
    if out.get('failure') is not None:
      return []
    if 'error' in out:
      e = out['error']
      return [v('dist-error', f'{mode}:{type(e).__name__}',
                f'the in-process run succeeded but the {mode} run raised {e!r}')]
    obs = out['value']
    spec = cfg['spec']
    res = []
    if mode == 'strict':
      st = obs['strict']
      if not spec['aggs']:
        return res
      for name in ('chained', 'single'):
        if not str(st[name]).startswith('ValueError'):
          res.append(v('strict-count', f'partial-merge-accepted:{name}',
                       f'merge_states with one state missing: {st[name]}'))
        want = obs['ref_res']
        if name == 'single' and isinstance(want, dict):
          # the last runner alone only knows its own aggregates
          want = {k: x for k, x in want.items() if "'e_" not in k}
        if not pipes.results_equal(st[name + '_full'], want):
          res.append(v('strict-count', f'full-merge-differs:{name}',
                       f"{st[name + '_full']} != {obs['ref_res']}"))
      return res
    by_rows = pipes.has_rebatch(spec)
    ref, got = obs['ref_out'], obs['out']
    if by_rows:
      a = common.multiset(r for b in ref for r in b)
      b = common.multiset(r for b_ in got for r in b_)
    else:
      a, b = common.multiset(ref), common.multiset(got)
    if a != b:
      lost, extra = a - b, b - a
      res.append(v('outputs', ('lost' if lost else 'extra') + f':{mode}',
                   f'unit={"row" if by_rows else "batch"} '
                   f'lost={dict(lost)} extra={dict(extra)}'))
    if obs.get('placeholders') is not None and \
        obs['placeholders'] != obs['ref_placeholders'] and not by_rows:
      res.append(v('outputs', f'placeholders:{mode}',
                   f"without batch output the in-process run hands out "
                   f"{obs['ref_placeholders'][0]} placeholders (None), the "
                   f"{mode} run {obs['placeholders']} [count, not-None]"))
    if spec['aggs']:
      if obs['n_results'] != 1:
        res.append(v('aggregate', f'result-count:{mode}',
                     f"{obs['n_results']} final aggregate results delivered"))
      elif not pipes.results_equal(obs['ref_res'], obs['res']):
        res.append(v('aggregate', f'differs:{mode}',
                     f"in-process {obs['ref_res']} != {mode} {obs['res']}"))
    # (whether the workers are released afterwards is not part of C16; it is
    # checked under C20 by c20:distrelease, which re-uses this scenario)
    return res

  def shrink(self, cfg):
    if cfg['sim'].get('fine'):
      c = copy.deepcopy(cfg); c['sim']['fine'] = False; yield c
    if cfg['latency']:
      c = copy.deepcopy(cfg); c['latency'] = 0; yield c
    for k in ('workers', 'shards', 'ibs', 'prefetch'):
      if cfg[k] > 1:
        c = copy.deepcopy(cfg); c[k] -= 1; yield c
    spec = cfg['spec']
    if spec['n'] > 1:
      c = copy.deepcopy(cfg); c['spec']['n'] -= 1; yield c
    for i in range(len(spec['ops'])):
      c = copy.deepcopy(cfg)
      del c['spec']['ops'][i]
      c['cut'] = min(c['cut'], len(c['spec']['ops']))
      if c['spec'].get('early'):
        c['spec']['early']['cut'] = min(c['spec']['early']['cut'],
                                        len(c['spec']['ops']))
      yield c
    if spec.get('early'):
      c = copy.deepcopy(cfg); del c['spec']['early']; yield c
    if len(spec['aggs']) > 1:
      c = copy.deepcopy(cfg); c['spec']['aggs'] = spec['aggs'][:1]; yield c
    if spec['slice']:
      c = copy.deepcopy(cfg); c['spec']['slice'] = False; yield c

  def nontrivial(self, cfg, out):
    return cfg['mode'] == 'strict' or out['switches'] > 10


FAMILIES = {'dist': DistFamily()}
