"""C03 — results do not depend on the execution strategy.

The same pipeline (drawn from scenarios/pipes.py) is run sequentially as one
fused stage (the reference) and then under one drawn strategy: worker threads
(shardable or non-shardable source), a chain of named stages (with or without
threads), k shards run concurrently whose states are merged in a
schedule-chosen order, or the in-process interleaved stage runner (thread pool
+ event loop + AsyncIteratorQueues).  The schedule is the simulator's.
"""

from __future__ import annotations

import copy

from scenarios import common
from scenarios import pipes
from scenarios.common import v

STRATEGIES = ('threads', 'threads', 'chain', 'chain_threads', 'shards',
              'interleaved')


class NonShardable:
  """An iterable that is neither shardable nor recoverable."""

  def __init__(self, data):
    self._data = data

  def __iter__(self):
    return iter(self._data)


class StrategyFamily(common.Family):
  prop = 'C03'
  name = 'strategy'

  def gen(self, rng, tier):
    spec = pipes.gen_spec(rng, max_n=9)
    strat = rng.choice(STRATEGIES)
    nops = len(spec['ops'])
    cuts = []
    if strat in ('chain', 'chain_threads', 'interleaved'):
      ncut = rng.choice([1, 1, 2])
      cuts = sorted({rng.randrange(0, nops + 1) for _ in range(ncut)})
    stage_threads = None
    if strat in ('threads', 'chain', 'chain_threads', 'shards',
                 'interleaved') and rng.random() < 0.3:
      # aggregates on an earlier named stage too (the reference is then the
      # same two-stage chain run sequentially)
      pipes.gen_early(rng, spec)
      e = spec['early']['cut']
      if cuts:
        cuts = sorted({e} | {c for c in cuts if c > e})
    if strat == 'chain_threads' and rng.random() < 0.6:
      # stages with different thread counts: a threaded stage pulls from a
      # sequential one and the other way round
      nst = (len(cuts) or 1) + 1
      stage_threads = [rng.choice([0, 0, 1, 2, 3]) for _ in range(nst)]
      if not any(stage_threads):
        stage_threads[-1] = 2
    cfg = {
        'spec': spec,
        'strategy': strat,
        # aggregate-only iteration (with_result=False): the batches are not
        # handed out, the aggregates must be the same
        'agg_only': bool(spec['aggs']) and strat in (
            'threads', 'chain', 'chain_threads', 'shards') and rng.random() < 0.2,
        'stage_threads': stage_threads,
        'num_threads': rng.choice([1, 2, 2, 3, 4]),
        'shardable': rng.random() < 0.6,
        # source kind: SequenceDataSource / ShardedIterable / plain iterable,
        # optionally handed to the pipeline already sharded (i of k)
        'src_kind': rng.choice(['seq', 'seq', 'multi', 'iter', 'plain']),
        # (multi: the data set is stored as several files; their sizes)
        'files': [rng.choice([0, 1, 1, 2, 2, 3]) for _ in range(6)],
        'pre_shard': rng.choice([None, None, [0, 2], [1, 2], [2, 3]]),
        'cuts': cuts,
        'k': rng.choice([1, 2, 3, 4, 5]),
        'concurrent_shards': rng.random() < 0.6,
        # how the shard states reach merge_states: a list or a one-shot
        # generator (what sharded_pipelines_as_iterator passes), with or
        # without the expected count
        'merge_as': rng.choice(['list', 'generator']),
        'merge_strict': rng.random() < 0.5,
        'buffer': rng.choice([0, 0, 1, 2]),
        'sim': {'fine': rng.random() < 0.2,
                'stay': rng.choice([0.0, 0.0, 0.5, 0.8])},
    }
    # scale: a few runs use a data set longer than the read-ahead of the
    # sequence sources (64 elements), so that a shard / per-thread sub-shard
    # spans several read-ahead blocks and ends inside one (drawn last, so the
    # other dimensions of a seed are unchanged)
    if rng.random() < 0.05 and strat != 'interleaved':
      spec['n'] = rng.randrange(65, 210)
      cfg['sim']['fine'] = False
    return cfg

  # ------------------------------------------------------------------------
  def drive(self, cfg, sim):
    import threading
    from ml_metrics._src.chainables import io
    spec = cfg['spec']
    strat = cfg['strategy']
    pipes.SINKS.clear()
    # the sink of the strategy run must not be the reference's sink
    ref_spec = copy.deepcopy(spec)
    for o in ref_spec['ops']:
      if o['op'] == 'sink':
        o['name'] = 'ref'

    kind = cfg.get('src_kind', 'seq' if cfg['shardable'] else 'plain')
    pre = cfg.get('pre_shard')
    if strat == 'shards':
      kind, pre = 'seq', None

    def source():
      if kind == 'plain':
        return NonShardable(pipes.make_data(spec))
      if kind == 'iter':
        ds = io.ShardedIterable(pipes.make_data(spec))
      elif kind == 'multi':
        data = pipes.make_data(spec)
        parts, at = [], 0
        for k in cfg.get('files') or [len(data)]:
          parts.append(data[at:at + k])
          at += k
        parts.append(data[at:])
        ds = io.SequenceDataSource.from_sequences(parts)
      else:
        ds = pipes.sequence_source(spec)
      if pre:
        ds = ds.shard(pre[0], pre[1])
      return ds

    # reference: sequential, fused, same (possibly pre-sharded) source
    p_ref = pipes.build(ref_spec, data_source=source())
    it = p_ref.make().iterate()
    ref_out = [pipes.batch_key(b) for b in it]
    ref_res = pipes.norm_result(it.agg_result)
    obs = {'ref_out': ref_out, 'ref_res': ref_res, 'out': None, 'res': None,
           'n_results': None}

    if strat in ('threads', 'chain', 'chain_threads'):
      n = 0 if strat == 'chain' else (
          cfg.get('stage_threads') or cfg['num_threads'])
      p = pipes.build(spec, num_threads=n, data_source=source(),
                      stages=cfg['cuts'] or None)
      if cfg.get('agg_only'):
        it = p.make().iterate(with_result=False)
        handed = [b for b in it]
        obs['handed_out'] = sum(1 for b in handed if b is not None)
        obs['out'] = list(ref_out)
      else:
        it = p.make().iterate()
        obs['out'] = [pipes.batch_key(b) for b in it]
      obs['res'] = pipes.norm_result(it.agg_result)
    elif strat == 'shards':
      k = cfg['k']
      p = pipes.build(spec, data_source=source())
      outs = [[] for _ in range(k)]
      states = [None] * k
      errs = []

      def run_shard(i):
        try:
          if cfg.get('agg_only'):
            it_ = p.make(shard=io.ShardConfig(i, k)).iterate(with_result=False)
            for _ in it_:
              pass
          else:
            it_ = p.make(shard=io.ShardConfig(i, k)).iterate()
            outs[i] = [pipes.batch_key(b) for b in it_]
          states[i] = it_.agg_state
        except Exception as e:  # pylint: disable=broad-exception-caught
          errs.append(repr(e))

      if cfg['concurrent_shards']:
        ts = [threading.Thread(target=run_shard, args=(i,), name=f'shard{i}')
              for i in range(k)]
        for t in ts:
          t.start()
        for t in ts:
          t.join()
      else:
        for i in range(k):
          run_shard(i)
      if errs:
        raise RuntimeError(f'shard failed: {errs}')
      order = list(range(k))
      for i in range(k - 1, 0, -1):
        j = sim.choose(i + 1, 'o')
        order[i], order[j] = order[j], order[i]
      obs['out'] = [b for o in outs for b in o]
      if cfg.get('agg_only'):
        obs['out'] = list(ref_out)
      if spec['aggs']:
        runner = p.make()
        seq = [states[i] for i in order]
        if cfg.get('merge_as') == 'generator':
          seq = (st for st in seq)
        merged = runner.merge_states(
            seq, strict_states_cnt=k if cfg.get('merge_strict', True) else 0)
        obs['res'] = pipes.norm_result(runner.get_result(merged))
        obs['merge_order'] = order
    elif strat == 'interleaved':
      from ml_metrics._src.chainables import orchestrate
      p = pipes.build(spec, data_source=source(), stages=cfg['cuts'] or None)
      resources = {
          name: orchestrate.RunnerResource(buffer_size=cfg['buffer'])
          for name in p.named_transforms()}
      with orchestrate.run_pipeline_interleaved(p, resources=resources) as r:
        obs['out'] = [pipes.batch_key(b) for b in r.result_queue]
      # every aggregating stage reports its own result on its own queue
      from ml_metrics._src.chainables import transform as transform_lib
      returned = [x for st in r.stages for x in st.result_queue.returned]
      agg_stages = sum(1 for _, t in p.named_transforms().items()
                       if t.make().has_agg)
      obs['n_results'] = len(returned) - max(agg_stages - 1, 0)
      merged = {}
      for x in returned:
        if isinstance(x, transform_lib.AggregateResult) and x.agg_result:
          merged.update(x.agg_result)
      if returned:
        obs['res'] = pipes.norm_result(merged)
    snk = pipes.SINKS.get('snk')
    ref_snk = pipes.SINKS.get('ref')
    if ref_snk is not None:
      obs['sink'] = {
          'ref': sorted(map(tuple, ref_snk.data)), 'ref_closed': ref_snk.closed,
          'got': sorted(map(tuple, snk.data)) if snk else None,
          'closed': snk.closed if snk else None}
    return obs

  # ------------------------------------------------------------------------
  def check(self, cfg, out):
    strat = cfg['strategy']
    dl = common.deadlock_violation(out)
    if dl:
      dl['sig'] += f':{strat}'
      return [dl]
    if out.get('failure') is not None:
      return []
    if 'error' in out:
      e = out['error']
      return [v('strategy-error', f'{strat}:{type(e).__name__}',
                f'sequential run succeeded but the {strat} run raised {e!r}')]
    obs = out['value']
    spec = cfg['spec']
    res = []
    by_rows = pipes.has_rebatch(spec) and strat != 'chain'
    ref, got = obs['ref_out'], obs['out']
    if by_rows:
      a = common.multiset(r for b in ref for r in b)
      b = common.multiset(r for b_ in got for r in b_)
    else:
      a, b = common.multiset(ref), common.multiset(got)
    if a != b:
      lost, extra = a - b, b - a
      res.append(v('outputs', ('lost' if lost else 'extra') + f':{strat}',
                   f'unit={"row" if by_rows else "batch"} lost={dict(lost)} '
                   f'extra={dict(extra)}'))
    if spec['aggs']:
      if not pipes.results_equal(obs['ref_res'], obs['res']):
        res.append(v('aggregate', f'differs:{strat}',
                     f"reference {obs['ref_res']} != {strat} {obs['res']}"))
    if strat == 'interleaved' and spec['aggs'] and obs['n_results'] != 1:
      res.append(v('aggregate', f'result-count:{strat}',
                   f"{obs['n_results']} AggregateResult(s) returned"))
    snk = obs.get('sink')
    if snk:
      if by_rows:
        flat = lambda xs: sorted(x for row in xs for x in row)
        same = flat(snk['ref']) == flat(snk['got'] or [])
      else:
        same = snk['ref'] == snk['got']
      if not same:
        res.append(v('sink', f'contents:{strat}', f'{snk}'))
      if not snk['closed']:
        res.append(v('sink', f'not-closed:{strat}', f'{snk}'))
    left = common.leftover_repo_threads(out)
    if left:
      res.append(v('threads', f'leak:{common.blocked_sig(left)}:{strat}',
                   f'{left}'))
    return res

  def shrink(self, cfg):
    if cfg['sim'].get('fine'):
      c = copy.deepcopy(cfg); c['sim']['fine'] = False; yield c
    spec = cfg['spec']
    if spec['n'] > 1:
      c = copy.deepcopy(cfg); c['spec']['n'] -= 1; yield c
    if spec['rows'] > 1:
      c = copy.deepcopy(cfg); c['spec']['rows'] -= 1; yield c
    for i in range(len(spec['ops'])):
      c = copy.deepcopy(cfg)
      del c['spec']['ops'][i]
      nops = len(c['spec']['ops'])
      c['cuts'] = sorted({min(x, nops) for x in c['cuts']})
      if c['spec'].get('early'):
        e = c['spec']['early']['cut'] = min(c['spec']['early']['cut'], nops)
        if c['cuts']:
          c['cuts'] = sorted({e} | {x for x in c['cuts'] if x > e})
      yield c
    if spec.get('early'):
      c = copy.deepcopy(cfg); del c['spec']['early']; yield c
    if cfg.get('stage_threads'):
      c = copy.deepcopy(cfg); c['stage_threads'] = None; yield c
    if len(spec['aggs']) > 1:
      c = copy.deepcopy(cfg); c['spec']['aggs'] = spec['aggs'][:1]; yield c
    if spec['slice']:
      c = copy.deepcopy(cfg); c['spec']['slice'] = False; yield c
    if cfg['num_threads'] > 1:
      c = copy.deepcopy(cfg); c['num_threads'] -= 1; yield c
    if cfg['k'] > 1:
      c = copy.deepcopy(cfg); c['k'] -= 1; yield c
    if cfg.get('pre_shard'):
      c = copy.deepcopy(cfg); c['pre_shard'] = None; yield c
    if len(cfg['cuts']) > 1:
      c = copy.deepcopy(cfg); c['cuts'] = cfg['cuts'][:1]; yield c
    for i, x in enumerate(cfg.get('stage_threads') or ()):
      if x > 0 and sum(1 for y in cfg['stage_threads'] if y) > 1:
        c = copy.deepcopy(cfg); c['stage_threads'][i] = 0; yield c

  def nontrivial(self, cfg, out):
    return out['switches'] > 2 or cfg['strategy'] in ('chain',)


FAMILIES = {'strategy': StrategyFamily()}
