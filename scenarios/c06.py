"""C06 — distributed runs survive worker timeouts and deaths: no lost or doubled work.

Same system as C16 with a non-empty fault plan (scenarios/faults.py): per worker
and per call index one of {request dropped, reply dropped, reply delayed past
the deadline, slow handler, death, death after the work, death + restart},
application errors inside a task / shard, and clock jumps.  Two drivers:
`as_completed(pool, tasks)` and `sharded_pipelines_as_iterator(pool, ...)`.
"""

from __future__ import annotations

import copy

from scenarios import common
from scenarios import cluster
from scenarios import faults
from scenarios import pipes
from scenarios.common import v

KINDS = ('drop_request', 'drop_reply', 'delay_reply', 'slow', 'death',
         'death_after', 'restart')
TIMEOUT_KINDS = ('drop_request', 'drop_reply', 'delay_reply', 'death',
                 'death_after', 'restart')
RETRIABLE = ('TimeoutError', 'RuntimeError', 'StatusError', 'ValueError')
SIM_TIME_LIMIT = 1_500.0   # simulated seconds after the last fault/restart


def gen_plan(rng, workers, methods, max_faults=3):
  plan = []
  for _ in range(rng.choice([0, 1, 1, 2, 2, max_faults])):
    kind = rng.choice(KINDS)
    f = {'addr': f'w{rng.randrange(workers)}',
         'method': rng.choice(methods + ['*']),
         'nth': rng.randrange(1, 6), 'kind': kind}
    if kind == 'slow':
      f['secs'] = rng.choice([0.5, 10.0, 150.0])
    if kind == 'restart':
      f['after'] = rng.choice([1.0, 40.0, 200.0])
    if kind == 'delay_reply':
      f['extra'] = rng.choice([0.5, 30.0])
    plan.append(f)
  return plan


def classify(cfg, obs):
  """(usable, within_budget) from the faults that actually fired."""
  fired = obs['fired']
  import collections
  kills = collections.Counter(
      f['addr'] for f in fired if f['kind'] in ('death', 'death_after', 'restart'))
  restarts = collections.Counter(r['addr'] for r in obs['restarts'])
  killed = set(kills)
  workers = {f'w{i}' for i in range(cfg['workers'])}
  # a worker is usable at the end if every kill of it was followed by a restart
  usable = any(kills[w] == restarts[w] for w in workers)
  # A clock jump is not one of the faults the property quantifies over; it can
  # make every worker look stale at once.  Runs with a jump are judged by the
  # weaker clause only.
  if obs.get('jumped'):
    usable = False
  n_timeouts = sum(1 for f in fired if f['kind'] in TIMEOUT_KINDS)
  n_timeouts += sum(1 for f in fired if f['kind'] == 'slow'
                    and any(p.get('secs', 0) >= cfg['call_timeout']
                            for p in cfg['plan'] if p['kind'] == 'slow'))
  n_timeouts += cfg['workers'] * (1 if obs.get('jumped') else 0)
  # One death can cost many retries (every task sent to the dead worker before
  # its heartbeat goes stale times out), so with a finite retry threshold the
  # budget is only known to suffice when no worker died.
  if killed and cfg.get('retry_threshold', 10**6) < 1000:
    n_timeouts = 10**6
  return usable, n_timeouts


_SUBMITTED = []


def _install_submit_counter():
  """Observation only: notes the address of every worker a generator task is
  handed to (CourierClient.async_iterate is called once per submission and only
  creates the async generator).  The wrapper lives outside the library's
  modules, so it is not a pre-emption point and changes no schedule."""
  from ml_metrics._src.utils import courier_utils
  orig = courier_utils.CourierClient.async_iterate
  if getattr(orig, '_verif_counted', False):
    return

  def counted_async_iterate(self, task, **kw):
    _SUBMITTED.append(self.address)
    return orig(self, task, **kw)

  counted_async_iterate._verif_counted = True
  courier_utils.CourierClient.async_iterate = counted_async_iterate


class _Base(common.Family):
  pct_ok = False   # timed oracles: see harness.run_random
  prop = 'C06'
  max_steps = 3_000_000

  def _setup(self, cfg, sim, prefetched):
    import courier
    from ml_metrics._src.chainables import courier_worker
    cl = cluster.Cluster(n_workers=cfg['workers'], prefetched=prefetched,
                         prefetch_size=cfg.get('prefetch', 2), host=True)
    pool = courier_worker.WorkerPool(
        cl.addresses(), call_timeout=cfg['call_timeout'],
        heartbeat_threshold_secs=cfg['hb_threshold'],
        iterate_batch_size=cfg.get('ibs', 1))
    pool.wait_until_alive(deadline_secs=120, minimum_num_workers=cfg['workers'])
    policy = faults.PlanPolicy(sim, cfg['plan'], cl, latency=bool(cfg['latency']))
    courier.NET.policy = policy
    sim.scratch['policy'] = policy
    def watchdog():
      last = 0.0
      if policy.fired:
        last = policy.fired[-1]['t']
      if policy.restarts:
        last = max(last, policy.restarts[-1]['t'])
      pending = sum(1 for f in policy.fired if f['kind'] == 'restart') - len(
          policy.restarts)
      if not pending and sim.now > last + SIM_TIME_LIMIT:
        return (f'liveness: the driver is still running {SIM_TIME_LIMIT} '
                'simulated seconds after the last fault')
      return None

    sim.invariants.append(watchdog)
    self._timed(cfg, sim, cl, policy)
    return cl, pool, policy

  def _timed(self, cfg, sim, cl, policy):
    """Workers that leave at an arbitrary scheduling step (not tied to a call):
    in particular right after their work is done and delivered."""
    import threading
    import time
    import courier
    for tf in cfg.get('timed') or ():
      def leave(tf=tf):
        sim.wait_steps(tf['steps'])
        if courier.NET.is_dead(cl.node_of(tf['w'])):
          return
        sim.count('fault:timed_' + tf['kind'])
        policy.fired.append({'kind': 'death', 'addr': tf['w'],
                             'method': '(step)', 'call': -1,
                             't': round(time.monotonic(), 6)})
        if tf['kind'] == 'goodbye':
          # a clean exit: the server says goodbye to the host (it is
          # unregistered at once) and stops serving
          cl.servers[tf['w']].stop()
        else:
          cl.kill(tf['w'])
      with cluster.node('injector'):
        threading.Thread(target=leave, name='leaver', daemon=True).start()

  def _jumper(self, cfg, sim, obs):
    import threading
    if not cfg.get('jump'):
      return None

    def jump():
      sim.wait_steps(cfg['jump']['after'])
      sim.count('fault:clock_jump')
      obs['jumped'] = True
      sim.advance(cfg['jump']['dt'])

    t = threading.Thread(target=jump, name='clock-jumper', daemon=True)
    t.start()
    return t

  def _common_gen(self, rng):
    w = rng.choice([1, 2, 2, 3, 4])
    timed = []
    if w > 1 and rng.random() < 0.25:
      timed.append({'w': f'w{rng.randrange(w)}',
                    'steps': rng.choice([300, 1000, 3000, 8000, 20000, 50000]),
                    'kind': rng.choice(['goodbye', 'death'])})
    return {
        'timed': timed,
        'workers': w,
        'call_timeout': rng.choice([2.0, 5.0]),
        'hb_threshold': rng.choice([70, 120]),
        'latency': rng.choice([0, 0, 1]),
        'jump': (None if rng.random() < 0.8 else
                 {'after': rng.randrange(50, 3000), 'dt': rng.choice([100.0, 400.0])}),
        'sim': {'fine': rng.random() < 0.1, 'stay': rng.choice([0.0, 0.5, 0.8]),
                'max_steps': 3_000_000},
    }

  def _liveness(self, cfg, out, failure, which):
    """The driver was still running at the simulated-time limit."""
    policy = out.get('scratch', {}).get('policy')
    obs = {'fired': policy.fired if policy else [],
           'restarts': policy.restarts if policy else [],
           'jumped': bool(out['counters'].get('fault:clock_jump'))}
    usable, n_timeouts = classify(cfg, obs)
    within = n_timeouts <= cfg.get('retry_threshold', 10**6)
    if not usable or not within:
      # no usable worker (or budget possibly exhausted): waiting for workers
      # to come back is the documented behaviour; no verdict
      return []
    last = max([f['t'] for f in obs['fired']] + [r['t'] for r in obs['restarts']]
               + [0.0])
    return [v('liveness', f'driver-never-finishes:{which}',
              f'a usable worker exists and the last fault was at t={last:.1f}s, '
              f'but the driver is still running {SIM_TIME_LIMIT}s later; fired '
              f'{obs["fired"]}; ' + str(failure.detail)[:700])]

  def nontrivial(self, cfg, out):
    return any(k.startswith('fault:') for k in out['counters'])

  def probes(self, cfg, out):
    p = []
    c = out['counters']
    if c.get('net:deadline_exceeded'):
      p.append('probe:retry_after_deadline')
    if c.get('fault:death') or c.get('fault:death_after') or c.get('fault:restart'):
      p.append('probe:worker_death')
    if c.get('fault:restarted'):
      p.append('probe:worker_restarted')
    if c.get('net:reply_after_deadline'):
      p.append('probe:work_done_but_reply_late')
    return p

  def _shrink_common(self, cfg):
    if cfg['sim'].get('fine'):
      c = copy.deepcopy(cfg); c['sim']['fine'] = False; yield c
    if cfg['latency']:
      c = copy.deepcopy(cfg); c['latency'] = 0; yield c
    if cfg.get('jump'):
      c = copy.deepcopy(cfg); c['jump'] = None; yield c
    if cfg.get('timed'):
      c = copy.deepcopy(cfg); c['timed'] = []; yield c
    for i in range(len(cfg['plan'])):
      c = copy.deepcopy(cfg); del c['plan'][i]; yield c
    for i, f in enumerate(cfg['plan']):
      if f['nth'] > 1:
        c = copy.deepcopy(cfg); c['plan'][i]['nth'] -= 1; yield c
    if cfg['workers'] > 1 and all(
        f['addr'] != f"w{cfg['workers'] - 1}" for f in cfg['plan']) and all(
            t['w'] != f"w{cfg['workers'] - 1}" for t in cfg.get('timed') or ()):
      c = copy.deepcopy(cfg); c['workers'] -= 1; yield c


class TasksFamily(_Base):
  """as_completed(pool, tasks)."""
  name = 'tasks'

  def gen(self, rng, tier):
    cfg = self._common_gen(rng)
    cfg['tasks'] = rng.randrange(1, 7)
    cfg['plan'] = gen_plan(rng, cfg['workers'], ['maybe_make', 'heartbeat'])
    cfg['app_error'] = (rng.randrange(cfg['tasks'])
                        if rng.random() < 0.25 else None)
    cfg['ignore_failures'] = rng.random() < 0.4
    # the caller may stop consuming early (break / close of the generator):
    # the workers have to be released all the same
    cfg['close_after'] = (rng.randrange(0, cfg['tasks'] + 1)
                          if rng.random() < 0.2 else None)
    return cfg

  def drive(self, cfg, sim):
    from ml_metrics._src.chainables import lazy_fns, orchestrate
    from scenarios import remote_lib as L
    cl, pool, policy = self._setup(cfg, sim, prefetched=False)
    obs = {'results': [], 'end': None, 'jumped': False}
    self._jumper(cfg, sim, obs)
    tasks = [lazy_fns.trace(L.task_fn)(i, fail=cfg['app_error'])
             for i in range(cfg['tasks'])]
    gen = orchestrate.as_completed(
        pool, tasks, ignore_failures=cfg['ignore_failures'])
    try:
      k = cfg.get('close_after')
      closed = False
      for r in (gen if k != 0 else ()):
        obs['results'].append(list(r) if isinstance(r, tuple) else repr(r))
        if k is not None and len(obs['results']) >= k:
          closed = True
          break
      if k is not None and (closed or k == 0):
        sim.count('fault:consumer_closes_early')
        gen.close()
        obs['end'] = ['closed', len(obs['results'])]
      else:
        obs['end'] = ['ok']
    except Exception as e:  # pylint: disable=broad-exception-caught
      obs['end'] = ['exc', type(e).__name__, str(e)[:300]]
    obs['acquired'] = [w.address for w in pool.acquired_workers]
    obs['fired'] = policy.fired
    obs['restarts'] = policy.restarts
    cl.stop_all(join=False)
    return obs

  def check(self, cfg, out):
    dl = common.deadlock_violation(out)
    if dl:
      dl['sig'] += ':tasks'
      return [dl]
    f = out.get('failure')
    if f is not None and f.kind == 'invariant':
      return self._liveness(cfg, out, f, 'tasks')
    if f is not None:
      return []
    if 'error' in out:
      e = out['error']
      return [v('driver', f'tasks:{type(e).__name__}', repr(e))]
    obs = out['value']
    res = []
    usable, _ = classify(cfg, obs)
    want = [['r', i] for i in range(cfg['tasks']) if i != cfg['app_error']]
    got = obs['results']
    end = obs['end']
    counts = common.multiset(map(tuple, got))
    dup = [k for k, n in counts.items() if n > 1]
    if dup:
      res.append(v('exactly-once', 'task-result-duplicated:tasks',
                   f'{dup}; results {got}; fired {obs["fired"]}'))
    foreign = [g for g in got if g not in want]
    if foreign and not dup:
      res.append(v('exactly-once', 'unexpected-result:tasks', f'{foreign}'))
    app = cfg['app_error'] is not None
    if end[0] == 'closed':
      pass
    elif end == ['ok']:
      missing = [w for w in want if w not in got]
      if missing:
        res.append(v('exactly-once', 'result-silently-missing:tasks',
                     f'as_completed returned normally without {missing}; '
                     f'fired {obs["fired"]}'))
      if app and not cfg['ignore_failures']:
        res.append(v('app-error', 'not-surfaced:tasks',
                     f"task {cfg['app_error']} raises but as_completed "
                     f'returned normally with {got}'))
    else:
      if app and not cfg['ignore_failures'] and \
          'application error in task' in end[2]:
        pass
      elif usable and end[1] in ('TimeoutError',) and 'All workers timeout' not in end[2]:
        res.append(v('robustness', f'gave-up-although-usable:tasks:{end[1]}',
                     f'{end}; fired {obs["fired"]}'))
      elif usable and not app:
        what = end[1]
        if end[1] == 'RuntimeError' and 'Failed to connect to worker' in end[2]:
          # CourierClient.submit waited a whole heartbeat threshold for a
          # worker that left right after it had been picked as idle and alive
          what = 'submit-to-departed-worker'
        res.append(v('robustness', f'raised-although-usable:tasks:{what}',
                     f'{end}; fired {obs["fired"]}; restarts {obs["restarts"]}'))
      # otherwise any error is acceptable
    if obs['acquired']:
      how = ('after-close' if end[0] == 'closed' else
             'after-error' if end != ['ok'] else 'after-return')
      res.append(v('release', f'workers-still-acquired:{how}:tasks',
                   f"{obs['acquired']} end={end}"))
    return res

  def shrink(self, cfg):
    yield from self._shrink_common(cfg)
    if cfg['tasks'] > 1 and (cfg['app_error'] is None or
                             cfg['app_error'] < cfg['tasks'] - 1):
      c = copy.deepcopy(cfg); c['tasks'] -= 1; yield c


class ShardsFamily(_Base):
  """sharded_pipelines_as_iterator(pool, define_pipeline, result_queue=...)."""
  name = 'shards'

  def gen(self, rng, tier):
    cfg = self._common_gen(rng)
    cfg['spec'] = pipes.gen_spec(rng, max_n=8, allow_sink=False,
                                 allow_rebatch=False)
    cfg['spec']['aggs'] = ['int'] + (['tsum'] if rng.random() < 0.3 else [])
    cfg['spec']['slice'] = False
    if rng.random() < 0.2:
      pipes.gen_early(rng, cfg['spec'])   # aggregates on two named stages
    cfg['shards'] = rng.randrange(1, 7)
    cfg['ibs'] = rng.choice([0, 1, 2, 3])
    cfg['prefetch'] = rng.choice([1, 2, 4])
    cfg['retry_threshold'] = rng.choice([0, 1, 2, 2, 3, 4, 999999, 999999])
    cfg['plan'] = gen_plan(
        rng, cfg['workers'],
        ['init_generator', 'next_batch_from_generator',
         'next_batch_from_generator', 'heartbeat'])
    cfg['app_error'] = (rng.randrange(cfg['shards'])
                        if rng.random() < 0.2 else None)
    # a consumer that takes its time with a batch: the scheduler inside the
    # generator is suspended meanwhile and finds several outcomes (a timeout,
    # an application error, a finished shard) at once when it resumes
    cfg['consume_delay'] = rng.choice([0, 0, 0, 1.0, 6.0])
    return cfg

  def drive(self, cfg, sim):
    import queue
    import time
    from ml_metrics._src.chainables import orchestrate
    spec = cfg['spec']
    it = pipes.define_sharded(spec).make().iterate()
    ref_out = [pipes.batch_key(b) for b in it]
    ref_res = pipes.norm_result(it.agg_result)
    cl, pool, policy = self._setup(cfg, sim, prefetched=True)
    obs = {'ref_out': ref_out, 'ref_res': ref_res, 'out': [], 'end': None,
           'jumped': False}
    self._jumper(cfg, sim, obs)
    rq = queue.SimpleQueue()
    # every generator task handed to a worker, whether or not its coroutine
    # got as far as sending init_generator
    _install_submit_counter()
    _SUBMITTED.clear()
    try:
      if cfg['app_error'] is None:
        gen = orchestrate.sharded_pipelines_as_iterator(
            pool, pipes.define_sharded, spec, num_shards=cfg['shards'],
            result_queue=rq, retry_threshold=cfg['retry_threshold'])
      else:
        gen = orchestrate.sharded_pipelines_as_iterator(
            pool, pipes.define_failing, spec, cfg['app_error'], 'ValueError',
            num_shards=cfg['shards'], result_queue=rq,
            retry_threshold=cfg['retry_threshold'])
      for b in gen:
        obs['out'].append(pipes.batch_key(b))
        if cfg.get('consume_delay'):
          time.sleep(cfg['consume_delay'])
      obs['end'] = ['ok']
    except Exception as e:  # pylint: disable=broad-exception-caught
      obs['end'] = ['exc', type(e).__name__, str(e)[:300]]
    results = []
    if obs['end'] == ['ok']:
      results.append(rq.get())
    time.sleep(1.0)
    while not rq.empty():
      results.append(rq.get())
    obs['submitted'] = list(_SUBMITTED)
    obs['n_results'] = len(results)
    obs['res'] = (pipes.norm_result(results[0].agg_result) if results else None)
    obs['acquired'] = [w.address for w in pool.acquired_workers]
    obs['fired'] = policy.fired
    obs['restarts'] = policy.restarts
    import courier
    obs['gen_calls'] = [
        [c.idx, c.address, c.method, c.outcome, c.ran_at, c.reply_mark]
        for c in courier.NET.calls
        if c.method in ('init_generator', 'next_batch_from_generator')]
    ok_starts = {}
    for c in courier.NET.calls:
      if c.outcome == 'ok':
        ok_starts.setdefault(c.address, []).append(round(c.start, 6))
    obs['ok_starts'] = ok_starts
    obs['t_end'] = round(time.monotonic(), 6)
    cl.stop_all(join=False)
    return obs

  @staticmethod
  def _abandoned_request_served_late(obs):
    """A generator request the client gave up on (deadline exceeded) whose
    handler only ran after a LATER init_generator on the same worker had been
    handled: it acts on a generator that is not the one it was sent for (a late
    init replaces the running generator, a late next_batch takes a batch
    nobody receives).  Returns the pair of calls, or None."""
    calls = obs.get('gen_calls') or []
    for x in calls:
      if x[3] != 'deadline' or x[4] is None:
        continue
      for y in calls:
        if (y[1] == x[1] and y[2] == 'init_generator' and y[0] > x[0]
            and y[4] is not None and y[4] <= x[4]):
          return [x, y]
    return None

  @staticmethod
  def _chargeable_tasks(cfg, obs):
    """How many submitted generator tasks can legitimately have been counted
    as a timeout.  A task is one init_generator call plus the next_batch calls
    to that worker up to its next init_generator.  It can time out when one of
    its calls got no answer in time or an error status; when an answer carried a
    TimeoutError value (the server refusing or stopping a generator); or when
    its worker can have been judged not alive: a configured clock jump, or a
    gap of more than half the heartbeat threshold without a successfully
    answered call sent to that worker (covers lost heartbeats and the
    simulator's own busy-poll clock jumps), or the worker left at some point
    (death, restart, or a goodbye, which unregisters it at once)."""
    tasks = {}
    order = []
    for c in obs.get('gen_calls') or ():
      idx, addr, method, outcome = c[0], c[1], c[2], c[3]
      mark = c[5] if len(c) > 5 else True
      if method == 'init_generator' or addr not in tasks:
        tasks[addr] = {'addr': addr, 'bad': False}
        order.append(tasks[addr])
      if outcome != 'ok' or mark:
        tasks[addr]['bad'] = True
    gap = 0.5 * cfg['hb_threshold']
    stale = set()
    for addr in {t['addr'] for t in order}:
      ts = sorted((obs.get('ok_starts') or {}).get(addr, ()))
      ts = ts + [obs.get('t_end', float('inf'))]
      if not ts[:-1] or any(b - a > gap for a, b in zip(ts, ts[1:])):
        stale.add(addr)
    # a worker that left (death, goodbye - unregistered at once - or restart)
    for f in obs.get('fired') or ():
      if str(f.get('kind', '')).startswith(('death', 'goodbye', 'restart')):
        stale.add(f.get('addr'))
    # A task given to a worker that stops looking alive before the task's
    # coroutine has sent anything is charged without leaving a call in the log:
    # every submission without an init_generator call counts as chargeable.
    n_sub = len(obs.get('submitted') or ())
    phantoms = max(0, n_sub - len(order))
    if obs.get('jumped'):
      return len(order) + phantoms
    return (sum(1 for t in order if t['bad'] or t['addr'] in stale)
            + phantoms)

  def check(self, cfg, out):
    dl = common.deadlock_violation(out)
    if dl:
      dl['sig'] += ':shards'
      return [dl]
    f = out.get('failure')
    if f is not None and f.kind == 'invariant':
      return self._liveness(cfg, out, f, 'shards')
    if f is not None:
      return []
    if 'error' in out:
      e = out['error']
      return [v('driver', f'shards:{type(e).__name__}', repr(e))]
    obs = out['value']
    res = []
    usable, n_timeouts = classify(cfg, obs)
    within = n_timeouts <= cfg['retry_threshold']
    end = obs['end']
    app = cfg['app_error'] is not None
    ref = common.multiset(obs['ref_out'])
    got = common.multiset(obs['out'])
    foreign = got - ref - ref - ref - ref - ref - ref - ref - ref
    if set(got) - set(ref):
      res.append(v('outputs', 'foreign-batch:shards',
                   f'{sorted(set(got) - set(ref))[:3]}'))
    del foreign
    if end == ['ok']:
      if app:
        res.append(v('app-error', 'not-surfaced:shards',
                     f"shard {cfg['app_error']} raises an application error but "
                     'the iterator finished normally'))
      else:
        missing = ref - got
        late = self._abandoned_request_served_late(obs)
        if missing and late:
          res.append(v('at-least-once', 'batch-lost-to-abandoned-request:shards',
                       f'{dict(missing)}; the abandoned call {late[0]} ran after '
                       f'{late[1]}; fired {obs["fired"]}'))
        elif missing and not obs['jumped']:
          res.append(v('at-least-once', 'batch-never-delivered:shards',
                       f'{dict(missing)}; fired {obs["fired"]}'))
        if obs['n_results'] != 1:
          res.append(v('aggregate', 'result-count:shards',
                       f"{obs['n_results']} final results"))
        elif not pipes.results_equal(obs['ref_res'], obs['res']):
          ref_int = obs['ref_res'].get("'int'")
          got_int = (obs['res'] or {}).get("'int'")
          kind = 'differs'
          if ref_int and got_int:
            kind = ('state-merged-more-than-once' if got_int[0] > ref_int[0]
                    else 'state-lost')
          if obs['jumped']:
            kind = 'wrong-after-clock-jump'
          late = self._abandoned_request_served_late(obs)
          if late:
            kind = 'wrong-after-abandoned-request'
          res.append(v('aggregate', f'{kind}:shards',
                       f"in-process {obs['ref_res']} != distributed {obs['res']}; "
                       f'fired {obs["fired"]} jumped={obs["jumped"]}'
                       + (f'; abandoned call {late[0]} ran after {late[1]}'
                          if late else '')))
    else:
      import re
      m = re.search(r'Too many Timeouts: (\d+) > (\d+)', end[2]) if end[1] == 'TimeoutError' else None
      if m:
        # The retry budget is charged once per timed-out task: the count the
        # pool reports cannot exceed the submitted tasks that can have timed
        # out at all (see _chargeable_tasks) - whatever else happened.
        unanswered = self._chargeable_tasks(cfg, obs)
        if int(m.group(1)) > unanswered:
          res.append(v('robustness', 'retry-budget-overcharged:shards',
                       f'{end[2][:120]}: {m.group(1)} timeouts charged, only '
                       f'{unanswered} submitted tasks can have timed out; '
                       f'fired {obs["fired"]}'))
      if app and end[1] == 'RuntimeError' and 'Failed at' in end[2]:
        pass
      elif usable and within and not app:
        res.append(v('robustness', f'raised-within-budget:shards:{end[1]}',
                     f'{end}; retry_threshold={cfg["retry_threshold"]} '
                     f'timeouts<= {n_timeouts}; fired {obs["fired"]}; '
                     f'restarts {obs["restarts"]}'))
      # otherwise (no usable worker, budget possibly exhausted, or a clock
      # jump): any error is acceptable; what is not is a silently wrong result
    if obs['acquired']:
      how = ('after-close' if end[0] == 'closed' else
             'after-error' if end != ['ok'] else 'after-return')
      res.append(v('release', f'workers-still-acquired:{how}:shards',
                   f"{obs['acquired']} end={end}"))
    return res

  def shrink(self, cfg):
    yield from self._shrink_common(cfg)
    if cfg['shards'] > 1 and (cfg['app_error'] is None or
                              cfg['app_error'] < cfg['shards'] - 1):
      c = copy.deepcopy(cfg); c['shards'] -= 1; yield c
    spec = cfg['spec']
    if spec['n'] > 1:
      c = copy.deepcopy(cfg); c['spec']['n'] -= 1; yield c
    for i in range(len(spec['ops'])):
      c = copy.deepcopy(cfg); del c['spec']['ops'][i]
      if c['spec'].get('early'):
        c['spec']['early']['cut'] = min(c['spec']['early']['cut'],
                                        len(c['spec']['ops']))
      yield c
    if spec.get('early'):
      c = copy.deepcopy(cfg); del c['spec']['early']; yield c


FAMILIES = {'tasks': TasksFamily(), 'shards': ShardsFamily()}
