"""Per-call fault plans for the simulated transport (C06).

A plan is explicit JSON: a list of faults, each
  {"addr": "w1", "method": "*" | name, "nth": k, "kind": ..., ...}
meaning "the k-th call (1-based) to address `addr` whose method matches".
Kinds: drop_request, drop_reply, delay_reply (past the deadline), slow (the
handler is held for `secs` simulated seconds), death (the node is partitioned
for ever when the request arrives), death_after (when the reply is due),
restart (death + a new incarnation after `after` seconds), goodbye (the
server is asked to stop gracefully while it serves the call, which is then
held for `secs`).
Every fault is counted when it actually fires.
"""

import collections
import threading
import time

import courier


class PlanPolicy(courier.Policy):

  def __init__(self, sim, plan, cluster, latency=False):
    self.sim = sim
    self.plan = [dict(f) for f in plan]
    self.cluster = cluster
    self.latency = latency
    self.counts = collections.Counter()
    self.fired = []
    self.restarts = []

  def _match(self, call):
    key_any = (call.address, '*')
    key_m = (call.address, call.method)
    self.counts[key_any] += 1
    self.counts[key_m] += 1
    out = []
    for f in self.plan:
      if f.get('done') or f['addr'] != call.address:
        continue
      n = self.counts[(call.address, f['method'])]
      if f['method'] in ('*', call.method) and n == f['nth']:
        f['done'] = True
        out.append(f)
    return out

  def _fire(self, f, call):
    self.fired.append({'kind': f['kind'], 'addr': f['addr'],
                       'method': call.method, 'call': call.idx,
                       't': round(time.monotonic(), 6)})
    self.sim.count('fault:' + f['kind'])

  def on_request(self, call):
    faults = self._match(call)
    call.faults_pending = faults
    delay = self.sim.draw([0.0, 0.001, 0.01], 'lat') if self.latency else 0.0
    for f in faults:
      k = f['kind']
      if k == 'drop_request':
        self._fire(f, call)
        return 0.0, True
      if k in ('death', 'restart'):
        if self._kill(f):
          self._fire(f, call)
        return 0.0, True
    return delay, False

  def before_handler(self, call):
    for f in getattr(call, 'faults_pending', ()):
      if f['kind'] == 'slow':
        self._fire(f, call)
        time.sleep(f['secs'])
      if f['kind'] == 'goodbye':
        # The worker process is asked to stop while it serves this call: it
        # says goodbye to its host (unregisters) and the call is held back.
        self._fire(f, call)
        self.cluster.servers[f['addr']].stop()
        time.sleep(f.get('secs', 0.0))

  def on_reply(self, call):
    delay = self.sim.draw([0.0, 0.001, 0.01], 'lat') if self.latency else 0.0
    for f in getattr(call, 'faults_pending', ()):
      k = f['kind']
      if k == 'drop_reply':
        self._fire(f, call)
        return 0.0, True
      if k == 'delay_reply':
        self._fire(f, call)
        return (call.timeout or 1.0) + f.get('extra', 1.0), False
      if k == 'death_after':
        if self._kill(f):
          self._fire(f, call)
        return 0.0, True
    return delay, False

  def _kill(self, f):
    name = f['addr']
    if courier.NET.is_dead(self.cluster.node_of(name)):
      return False   # that incarnation is dead already: nothing fires
    self.cluster.kill(name)
    if f['kind'] == 'restart':
      def restarter():
        time.sleep(f['after'])
        self.sim.count('fault:restarted')
        self.cluster.start_worker(name)
        self.restarts.append({'addr': name, 't': round(time.monotonic(), 6)})
      t = threading.Thread(target=restarter, name=f'restart-{name}', daemon=True)
      group = courier._current_group()  # pylint: disable=protected-access
      courier._set_group('injector')  # pylint: disable=protected-access
      try:
        t.start()
      finally:
        courier._set_group(group)  # pylint: disable=protected-access
    return True
