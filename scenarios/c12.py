"""C12 — error skipping drops only failing elements; otherwise the first error surfaces.

Fault seams: (a) the data source (a sequence whose element and slice reads raise
for chosen indices), (b) an operator whose function raises on poison rows
(apply / assign / filter), (c) a sink whose write raises, (d) malformed records
(a list where a dict is expected: TypeError during input selection, skippable;
a dict without the selected key: KeyError, not skippable).  Failure positions
are drawn over all positions; 1-4 failures per run; skipping on and off;
with and without function re-batching; num_threads 0..2.
"""

from __future__ import annotations

import copy

import numpy as np

from scenarios import common
from scenarios import pipes
from scenarios.common import v

SITES = ('source', 'source', 'apply', 'assign', 'filter', 'sink', 'malformed')
ERRS = {'ValueError': ValueError, 'TypeError': TypeError, 'KeyError': KeyError,
        'RuntimeError': RuntimeError}
SKIPPABLE = ('ValueError', 'TypeError')

# The poison set of the current run (module-level so that the operator
# functions stay plain picklable functions).
_POISON = {'ids': frozenset(), 'err': 'ValueError', 'fired': []}


def _check(ids):
  bad = sorted(int(i) for i in np.asarray(ids).reshape(-1)
               if int(i) in _POISON['ids'])
  if bad:
    _POISON['fired'].append(bad[0])
    raise ERRS[_POISON['err']](f'poison {bad[0]}')


def p_apply(i, x, g):
  _check(i)
  return i, x + 3, g


def p_assign(i):
  _check(i)
  return np.asarray(i) * 2 + 1


def p_filter(i):
  _check(i)
  return True


class PoisonSink:
  def __init__(self):
    self.data = []
    self.closed = 0

  def write(self, ids):
    _check(ids)
    self.data.extend(int(i) for i in np.asarray(ids).reshape(-1))

  def close(self):
    self.closed += 1


class FaultyList:
  """A random-access sequence whose reads fail at poison indices."""

  def __init__(self, data, poison, err):
    self._data = data
    self._poison = set(poison)
    self._err = err
    self.fired = []

  def __len__(self):
    return len(self._data)

  def __getitem__(self, i):
    if isinstance(i, slice):
      idx = range(*i.indices(len(self._data)))
      bad = [k for k in idx if k in self._poison]
      if bad:
        self.fired.append(('slice', bad[0]))
        raise ERRS[self._err](f'poison {bad[0]}')
      return self._data[i]
    if i in self._poison:
      self.fired.append(('item', i))
      raise ERRS[self._err](f'poison {i}')
    return self._data[i]


def _chain_msgs(e):
  out, seen = [], set()
  while e is not None and id(e) not in seen:
    seen.add(id(e))
    out.append(f'{type(e).__name__}:{e}')
    e = e.__cause__ or e.__context__
  return out


class SkipFamily(common.Family):
  prop = 'C12'
  name = 'skip'

  def gen(self, rng, tier):
    n = rng.randrange(1, 11)
    site = rng.choice(SITES)
    rows = rng.choice([1, 1, 2])
    num_threads = rng.choice([0, 0, 1, 2])
    fbs = bs = 0
    if site in ('apply', 'assign') and rows == 1 and num_threads == 0 \
        and rng.random() < 0.5:
      fbs = rng.choice([1, 2, 3])
      # assign merges the function's outputs back into its inputs: the output
      # batch size has to be the incoming one (one row per element here)
      bs = 1 if site == 'assign' else rng.choice([1, 2, 3])
    npoison = rng.choice([1, 1, 2, 3, 4])
    poison = sorted({rng.randrange(n) for _ in range(npoison)})
    err = rng.choice(['ValueError', 'ValueError', 'TypeError', 'KeyError',
                      'RuntimeError'])
    mal_op = ''
    if site == 'malformed':
      mal_op = rng.choice(['apply', 'assign', 'filter', 'sink'])
      err = rng.choice(['TypeError', 'TypeError', 'KeyError'])
    cfg = {
        # the failing source handed over as a bare (non-shardable) sequence of
        # files: with threads every worker then reads from one shared iterator
        'src_merged': site == 'source' and rng.random() < 0.35,
        # (an apply right after the source: the operator that can skip a
        # failing read of a source without a switch of its own)
        'src_apply': site == 'source' and rng.random() < 0.5,
        'mal_op': mal_op,
        # a well-behaved sink upstream of the failing operator: it has to be
        # closed too when the error ends the iteration
        # (a sink's output cannot be assigned to: no assign after it)
        'up_sink': site in ('source', 'apply', 'filter', 'malformed') and
                   mal_op in ('', 'apply', 'filter') and rng.random() < 0.5,
        'n': n, 'rows': rows, 'salt': rng.randrange(1, 10), 'site': site,
        'poison': poison, 'err': err, 'ignore': rng.random() < 0.7,
        # source-level skipping is configured on the data source itself
        'src_ignore': rng.random() < 0.7,
        'pre': rng.random() < 0.5, 'post': rng.random() < 0.5,
        'agg': rng.random() < 0.6, 'fbs': fbs, 'bs': bs,
        'num_threads': num_threads,
        'sim': {'fine': num_threads > 0 and rng.random() < 0.2,
                'stay': rng.choice([0.0, 0.0, 0.5, 0.8])},
    }
    if cfg['up_sink']:
      cfg['pre'] = cfg['post'] = False
    return cfg

  # ------------------------------------------------------------------------
  def _build(self, cfg, data_source, sink, up_sink=None):
    from ml_metrics._src.chainables import transform
    t = transform.TreeTransform.new(name='p', num_threads=cfg['num_threads'])
    t = t.data_source(data_source)
    if up_sink is not None:
      t = t.sink(up_sink, input_keys='x')
    if cfg.get('src_apply'):
      t = t.apply(fn=pipes.f_apply_xy, input_keys=('id', 'x', 'g'),
                  output_keys=('id', 'x', 'g'))
    if cfg['pre']:
      t = t.assign('y', fn=pipes.f_double_plus, input_keys='x')
    site = cfg.get('mal_op') or cfg['site']
    kw = {}
    if cfg['fbs']:
      kw = {'fn_batch_size': cfg['fbs'], 'batch_size': cfg['bs']}
    if site == 'apply':
      t = t.apply(fn=p_apply, input_keys=('id', 'x', 'g'),
                  output_keys=('id', 'x', 'g'), **kw)
    elif site == 'assign':
      t = t.assign('w', fn=p_assign, input_keys='id', **kw)
    elif site == 'filter':
      t = t.filter(p_filter, input_keys='id')
    if cfg['post'] and site != 'sink':
      t = t.assign('z', fn=pipes.f_add, input_keys=('x', 'id'))
    if site == 'sink':
      t = t.sink(sink, input_keys='id')
    if cfg['agg']:
      t = t.aggregate(fn=pipes.IntStats().as_agg_fn(), input_keys=('id', 'x'),
                      output_keys='int')
    return t

  def _spec(self, cfg):
    return {'n': cfg['n'], 'rows': cfg['rows'], 'salt': cfg['salt'], 'groups': 2}

  def drive(self, cfg, sim):
    from ml_metrics._src.chainables import io
    data = pipes.make_data(self._spec(cfg))
    rows = cfg['rows']
    site = cfg['site']
    # ---- reference: same pipeline, nothing poisoned ------------------------
    _POISON.update(ids=frozenset(), err=cfg['err'], fired=[])
    ref_cfg = dict(cfg, num_threads=0)
    p = self._build(ref_cfg, io.SequenceDataSource(list(data)), PoisonSink())
    ref_rows = [r for b in p.make().iterate() for r in pipes.rows_of(b)]
    # ---- faulty run ------------------------------------------------------------
    poison_ids = frozenset(i * rows + r for i in cfg['poison'] for r in range(rows))
    sink = PoisonSink()
    if site == 'source':
      src = FaultyList(list(data), cfg['poison'], cfg['err'])
      if cfg.get('src_merged'):
        from ml_metrics._src.utils import iter_utils
        ds = iter_utils.MergedSequences([src])
      else:
        ds = io.SequenceDataSource(src, ignore_error=cfg['src_ignore'])
      _POISON.update(ids=frozenset(), err=cfg['err'], fired=[])
    elif site == 'malformed':
      src = None
      bad = list(data)
      for i in cfg['poison']:
        if cfg['err'] == 'TypeError':
          bad[i] = ['poison', i]          # list['id'] -> TypeError
        else:
          bad[i] = {k: v_ for k, v_ in data[i].items() if k != 'id'}
      ds = io.SequenceDataSource(bad)
      _POISON.update(ids=frozenset(), err=cfg['err'], fired=[])
    else:
      src = None
      ds = io.SequenceDataSource(list(data))
      _POISON.update(ids=poison_ids, err=cfg['err'], fired=[])
    up = pipes.ListSink() if cfg.get('up_sink') else None
    p = self._build(cfg, ds, sink, up)
    it = p.make().iterate(ignore_error=cfg['ignore'])
    got, end = [], None
    try:
      for b in it:
        got.append(pipes.rows_of(b))
      end = ['stop']
    except Exception as e:  # pylint: disable=broad-exception-caught
      end = ['exc', _chain_msgs(e)]
    # "iteration stops": the caller still holds the iterator; asking again
    # must not hand out further elements
    again = []
    up_closed_at_end = up.closed if up is not None else None
    if end[0] == 'exc':
      for _ in range(2):
        try:
          again.append(['elem', pipes.rows_of(next(it))])
        except StopIteration:
          again.append(['stop'])
        except Exception as e:  # pylint: disable=broad-exception-caught
          again.append(['exc', type(e).__name__])
    res = None
    if cfg['agg'] and end == ['stop']:
      res = pipes.norm_result(it.agg_result)
    fired = list(src.fired) if src is not None else list(_POISON['fired'])
    if site == 'malformed':
      fired = list(cfg['poison'])
    sim.count('fault:injected_error', len(fired))
    _POISON.update(ids=frozenset(), fired=[])
    return {'ref_rows': ref_rows, 'got': got, 'end': end, 'res': res,
            'again': again, 'up_closed': up_closed_at_end,
            'sink': {'data': sink.data, 'closed': sink.closed},
            'fired': [list(f) if isinstance(f, tuple) else f for f in fired]}

  # ------------------------------------------------------------------------
  def _dropped_elements(self, cfg):
    """Source elements whose processing raises (incl. call-batch mates)."""
    poison = set(cfg['poison'])
    if cfg['fbs'] > 1:
      # rows == 1, no threads, no filter upstream: the k-th call of the
      # failing operator covers elements [k*fbs, (k+1)*fbs)
      out = set()
      for i in poison:
        k = i // cfg['fbs']
        out.update(range(k * cfg['fbs'], min((k + 1) * cfg['fbs'], cfg['n'])))
      return out
    return poison

  def check(self, cfg, out):
    site = cfg['site']
    ignore = cfg['src_ignore'] if site == 'source' else cfg['ignore']
    if cfg.get('src_merged'):
      # no source-level switch: the pipeline-level one decides
      ignore = cfg['ignore']
    mode = 'skip' if ignore else 'noskip'
    if site == 'source' and not ignore and cfg['ignore']:
      mode = 'noskip-src-only'
    if cfg.get('src_merged'):
      mode += '-merged'
    thr = 'threads' if cfg['num_threads'] else 'seq'
    rb = 'rebatch' if cfg['fbs'] else 'plain'
    tag = f'{site}:{mode}:{thr}:{rb}'
    dl = common.deadlock_violation(out)
    if dl:
      dl['sig'] += ':' + tag
      return [dl]
    if out.get('failure') is not None:
      return []
    if 'error' in out:
      e = out['error']
      return [v('driver', f'{type(e).__name__}:{tag}', repr(e))]
    obs = out['value']
    res = []
    rows = cfg['rows']
    skippable = cfg['err'] in SKIPPABLE or site not in ('source', 'malformed')
    ref_rows = obs['ref_rows']
    got_rows = [r for b in obs['got'] for r in b]
    elem_of = lambda r: dict(r)['id'] // rows
    expect_skip = ignore and skippable
    if expect_skip:
      dropped = self._dropped_elements(cfg)
      want = [r for r in ref_rows if elem_of(r) not in dropped]
      if obs['end'] != ['stop']:
        res.append(v('skip', f'error-surfaced:{tag}',
                     f"skipping is on and {cfg['err']} is skippable, but "
                     f"iteration raised {obs['end']}"))
      else:
        same = (got_rows == want) if not cfg['num_threads'] else (
            common.multiset(got_rows) == common.multiset(want))
        if not same:
          a, b = common.multiset(want), common.multiset(got_rows)
          lost, extra = a - b, b - a
          lost_el = sorted({elem_of(eval(r)) for r in lost})  # pylint: disable=eval-used
          kind = 'lost' if lost else ('extra' if extra else 'order')
          after = ''
          if lost_el and max(lost_el) > min(cfg['poison']):
            after = ':after-failure'
          res.append(v('skip', f'{kind}{after}:{tag}',
                       f"poison={cfg['poison']} dropped-by-design={sorted(dropped)} "
                       f"lost elements={lost_el} extra={sorted(extra)[:3]} "
                       f"fbs={cfg['fbs']} bs={cfg['bs']}"))
        elif cfg['agg'] and obs['res'] is not None:
          st = pipes.IntStats()
          for r in got_rows:
            d = dict(r)
            st.merge(pipes.IntStats().new([d['id']], [d['x']]))
          if obs['res'].get("'int'") != list(st.result()):
            res.append(v('skip', f'aggregate:{tag}',
                         f"{obs['res']} != stats of delivered rows {st.result()}"))
    else:
      msgs = obs['end'][1] if obs['end'] and obs['end'][0] == 'exc' else []
      if site == 'malformed':
        pat = 'list indices' if cfg['err'] == 'TypeError' else "'id'"
        injected = any(m.startswith(cfg['err'] + ':') and pat in m for m in msgs)
      else:
        injected = any(f"{cfg['err']}:" in m and 'poison' in m for m in msgs)
      skipped_cleanly = False
      if obs['end'] == ['stop'] and mode.startswith('noskip-src-only') and \
          cfg['err'] in SKIPPABLE:
        # Skipping is on for the pipeline and off for the source only: an
        # operator that skips the failing read (everything else delivered,
        # once, in order) is within "error skipping enabled".
        want_ = [r for r in ref_rows if elem_of(r) not in set(cfg['poison'])]
        skipped_cleanly = (got_rows == want_) if not cfg['num_threads'] else (
            common.multiset(got_rows) == common.multiset(want_))
      if skipped_cleanly:
        pass
      elif obs['end'] == ['stop']:
        res.append(v('surface', f'error-swallowed:{tag}',
                     f"error skipping is {'on' if ignore else 'off'} and "
                     f"{cfg['err']} at {site} {cfg['poison']} is not skippable here, "
                     f"but iteration ended normally with {len(got_rows)} rows"))
      elif not injected:
        res.append(v('surface', f'cause-lost:{tag}',
                     f'raised {msgs}, the injected exception is not in the chain'))
      extra = common.multiset(got_rows) - common.multiset(ref_rows)
      if extra:
        res.append(v('surface', f'extra:{tag}', f'{dict(extra)}'))
    if any(a[0] == 'elem' for a in obs.get('again', ())):
      res.append(v('surface', f'iteration-continues:{tag}',
                   f"after the error {obs['end']} the iterator went on: "
                   f"{obs['again']}"))
    if obs.get('up_closed') == 0:
      how = 'after-error' if obs['end'][0] == 'exc' else 'at-end'
      res.append(v('sink', f'upstream-not-closed:{how}:{tag}',
                   f"the sink upstream of {site} was not closed when the "
                   f"iteration ended with {obs['end'][0]}"))
    if (cfg.get('mal_op') or site) == 'sink' and not obs['sink']['closed']:
      res.append(v('sink', f'not-closed:{tag}', f"{obs['sink']}"))
    left = common.leftover_repo_threads(out)
    if left:
      res.append(v('threads', f'leak:{common.blocked_sig(left)}:{tag}', f'{left}'))
    return res

  def shrink(self, cfg):
    if cfg['sim'].get('fine'):
      c = copy.deepcopy(cfg); c['sim']['fine'] = False; yield c
    for k in ('pre', 'post', 'agg', 'up_sink'):
      if cfg.get(k):
        c = copy.deepcopy(cfg); c[k] = False; yield c
    if len(cfg['poison']) > 1:
      for i in range(len(cfg['poison'])):
        c = copy.deepcopy(cfg); del c['poison'][i]; yield c
    if cfg['n'] > max(cfg['poison']) + 1:
      c = copy.deepcopy(cfg); c['n'] -= 1; yield c
    if cfg['poison'][0] > 0:
      c = copy.deepcopy(cfg)
      c['poison'] = [x - 1 for x in cfg['poison']]
      c['n'] -= 1
      yield c
    if cfg['rows'] > 1:
      c = copy.deepcopy(cfg); c['rows'] = 1; yield c
    if cfg['num_threads'] > 1:
      c = copy.deepcopy(cfg); c['num_threads'] -= 1; yield c
    if cfg['fbs'] > 1:
      c = copy.deepcopy(cfg); c['fbs'] -= 1; yield c
    if cfg['bs'] > 1:
      c = copy.deepcopy(cfg); c['bs'] -= 1; yield c

  def nontrivial(self, cfg, out):
    return out['counters'].get('fault:injected_error', 0) > 0

  def probes(self, cfg, out):
    p = []
    obs = out.get('value') or {}
    if any(isinstance(f, list) and f and f[0] == 'slice'
           for f in obs.get('fired', [])):
      p.append('probe:range_iterator_readahead_fallback')
    if cfg['fbs'] > 1:
      p.append('probe:failure_inside_rebatched_call')
    return p


FAMILIES = {'skip': SkipFamily()}
