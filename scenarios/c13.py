"""C13 — parallel iteration yields the sequential multiset and releases its threads.

System: the real `pmap`, `piter_fn`, `piter`, `piter_multiplex`,
`MultiplexIterator(parallism=n)`, `DequeueIterator(num_steps)`,
`iterate_fn(multithread=True)` on the real `ThreadPoolExecutor`.
Per run: one API, a drawn parallelism / buffer / input shape, and optionally an
early stop after s outputs or a failure of the mapped function at one item.
"""

from __future__ import annotations

import copy

from scenarios import common
from scenarios.common import v

APIS = ('pmap', 'piter_fn', 'piter', 'piter_multiplex', 'multiplex',
        'multiplex', 'iterate_fn')


def _inputs(cfg):
  return [[(j, i) for i in range(n)] for j, n in enumerate(cfg['items'])]


def _fn_out(x):
  return (x[0], x[1], 'f')


def expected_outputs(cfg):
  xs = [x for src in _inputs(cfg) for x in src]
  if cfg['api'] in ('piter_multiplex',) or (
      cfg['api'] in ('piter', 'multiplex') and not cfg['use_fn']):
    return xs
  return [_fn_out(x) for x in xs]


class ParFamily(common.Family):
  prop = 'C13'
  name = 'par'

  def gen(self, rng, tier):
    api = rng.choice(APIS)
    n = rng.choice([0, 1, 1, 2, 2, 3, 4])
    nsrc = 1 if api in ('pmap', 'piter_fn', 'iterate_fn') else rng.choice([1, 2, 2, 3])
    items = [rng.randrange(0, 9) for _ in range(nsrc)]
    total = sum(items)
    cfg = {
        'api': api,
        'n': n,
        'items': items,
        'rets': [rng.random() < 0.6 for _ in range(nsrc)],
        'buf': rng.choice([0, 0, 1, 2, 3 * max(n, 1)]),
        'mb': rng.choice([0, 0, 1, 2]),
        'use_fn': rng.random() < 0.7,
        'extra_workers': rng.choice([0, 0, 1, 2]),
        'fault': rng.choice(['none', 'none', 'stop', 'fail']),
        'sim': {'fine': rng.random() < 0.25,
                'stay': rng.choice([0.0, 0.0, 0.5, 0.8])},
    }
    # the single input of a parallel stage may itself be the iterator of a
    # queue that another thread feeds (what the in-process interleaved runner
    # hands to a threaded stage)
    cfg['src_kind'] = 'gen'
    if api in ('pmap', 'piter_fn', 'multiplex') and nsrc == 1 and \
        rng.random() < 0.35:
      cfg['src_kind'] = 'dequeue'
      cfg['rets'] = [False]
    if api == 'iterate_fn':
      cfg['n'] = 1
      cfg['fault'] = rng.choice(['none', 'fail'])
      cfg['items'] = [rng.randrange(0, 7)]
      total = cfg['items'][0]
    if cfg['fault'] == 'stop':
      cfg['stop_after'] = rng.randrange(0, total + 1)
      cfg['stop_how'] = rng.choice(['num_steps', 'maybe_stop'])
      if api == 'multiplex':
        cfg['stop_how'] = 'maybe_stop'
    if cfg['fault'] == 'fail':
      if total == 0:
        cfg['fault'] = 'none'
      else:
        k = rng.randrange(total)
        flat = [x for src in _inputs(cfg) for x in src]
        cfg['fail_at'] = list(flat[k])
        if api in ('piter_multiplex',) or (
            api in ('piter', 'multiplex') and not cfg['use_fn']):
          # no mapped function in these shapes: the source itself fails
          cfg['fail_in'] = 'source'
          cfg['src_kind'] = 'gen'
        else:
          cfg['fail_in'] = 'fn'
    return cfg

  # ------------------------------------------------------------------------
  def drive(self, cfg, sim):
    from concurrent import futures
    from ml_metrics._src.utils import iter_utils

    api, n = cfg['api'], cfg['n']
    inputs = _inputs(cfg)
    fail_at = tuple(cfg['fail_at']) if cfg['fault'] == 'fail' else None
    fail_in = cfg.get('fail_in')

    def src(j):
      for x in inputs[j]:
        if fail_in == 'source' and x == fail_at:
          sim.count('fault:source_raise')
          raise ValueError('injected')
        yield x
      if cfg['rets'][j]:
        return ('ret', j)

    def fn(x):
      if fail_in == 'fn' and x == fail_at:
        sim.count('fault:fn_raise')
        raise ValueError('injected')
      return _fn_out(x)

    def iter_fn(it):
      c = 0
      for x in it:
        yield fn(x)
        c += 1
      return ('cnt', c)

    obs = {'out': [], 'end': None, 'returned': None, 'pool': None}
    feeder = None
    if cfg.get('src_kind') == 'dequeue':
      import threading
      q1 = iter_utils.IteratorQueue(0, name='feed')
      feeder = threading.Thread(target=q1.enqueue_from_iterator,
                                args=(src(0),), name='feeder')
      feeder.start()
      src0 = lambda: iter(q1)
    else:
      src0 = lambda: src(0)

    if api == 'iterate_fn':
      wrapped = iter_utils.iterate_fn(fn, multithread=True)
      col0 = [x[0] for x in inputs[0]]
      col1 = [x[1] for x in inputs[0]]
      try:
        res = wrapped(list(zip(col0, col1)))
        obs['out'] = [list(r) for r in res]
        # a tuple return is transposed column-wise by iterate_fn
        if isinstance(res, tuple):
          obs['out'] = [list(r) for r in zip(*res)]
        obs['end'] = ['stop', []]
      except Exception as e:  # pylint: disable=broad-exception-caught
        obs['end'] = ['exc', type(e).__name__, str(e)]
      return obs

    nsrc = len(inputs)
    needed = {'pmap': n, 'piter_fn': n,
              'piter': (nsrc if nsrc > 1 else 0) + (n if cfg['use_fn'] else 0),
              'piter_multiplex': nsrc}.get(api, 0)
    pool = None
    if api != 'multiplex':
      pool = futures.ThreadPoolExecutor(
          max_workers=max(needed, 1) + cfg['extra_workers'],
          thread_name_prefix='pool')
    if api == 'pmap':
      it = iter_utils.pmap(fn, src0(), max_parallism=n, buffer_size=cfg['buf'],
                           thread_pool=pool)
    elif api == 'piter_fn':
      it = iter_utils.piter_fn(iter_fn, input_iterable=src0(), thread_pool=pool,
                               parallism=n, buffer_size=cfg['buf'])
    elif api == 'piter':
      it = iter_utils.piter(iter_fn if cfg['use_fn'] else None,
                            input_iterators=[src(j) for j in range(nsrc)],
                            max_parallism=n, buffer_size=cfg['buf'],
                            thread_pool=pool)
    elif api == 'piter_multiplex':
      it = iter_utils.piter_multiplex([src(j) for j in range(nsrc)], pool,
                                      buffer_size=cfg['buf'],
                                      max_batch_size=cfg['mb'])
    else:
      class Src:
        def __init__(self, j):
          self.j = j

        def __iter__(self):
          return src0() if self.j == 0 else src(self.j)
      it = iter_utils.MultiplexIterator(
          data_sources=[Src(j) for j in range(nsrc)],
          iter_fn=iter_fn if cfg['use_fn'] else None, parallism=n, name='mx')

    stop_after = cfg.get('stop_after') if cfg['fault'] == 'stop' else None
    is_queue = isinstance(it, iter_utils.IteratorQueue)
    if is_queue:
      it._verif_tag = 'outer'  # pylint: disable=protected-access
    if stop_after is not None and cfg['stop_how'] == 'num_steps' and is_queue:
      itr = it.dequeue_as_iterator(num_steps=stop_after)
      manual = False
    else:
      itr = iter(it)
      manual = stop_after is not None
    out = obs['out']
    try:
      while True:
        if manual and len(out) == stop_after:
          sim.count('fault:early_stop')
          if hasattr(itr, 'maybe_stop'):
            itr.maybe_stop()
            obs['end'] = ['stopped']
          else:
            obs['end'] = ['stopped-unstoppable']
          break
        out.append(next(itr))
    except StopIteration as e:
      obs['end'] = ['stop', [list(a) if isinstance(a, tuple) else a
                             for a in e.args]]
    except Exception as e:  # pylint: disable=broad-exception-caught
      obs['end'] = ['exc', type(e).__name__, str(e)]
    if stop_after is not None and not manual:
      sim.count('fault:early_stop')
    if is_queue:
      obs['returned'] = [list(a) if isinstance(a, tuple) else a
                         for a in it.returned]
    if feeder is not None:
      feeder.join()
    if pool is not None:
      if obs['end'] and obs['end'][0] == 'stopped-unstoppable':
        # a plain (n == 0) iterator has no helper threads to release
        pass
      pool.shutdown(wait=True)
      obs['pool'] = 'shutdown-returned'
    elif api == 'multiplex':
      tp = it._thread_pool  # pylint: disable=protected-access
      if tp is not None:
        obs['pool'] = {
            'shutdown': bool(tp._shutdown),  # pylint: disable=protected-access
            'alive': sorted(t.name for t in tp._threads if t.is_alive()),  # pylint: disable=protected-access
        }
    obs['out'] = [list(x) for x in out]
    return obs

  # ------------------------------------------------------------------------
  def check(self, cfg, out):
    api = cfg['api']
    dl = common.deadlock_violation(out)
    if dl:
      dl['sig'] += f":{api}:{cfg['fault']}"
      return [dl]
    if out.get('failure') is not None:
      return []
    if 'error' in out:
      e = out['error']
      return [v('driver', f'driver-error:{type(e).__name__}:{api}', repr(e))]
    obs = out['value']
    res = []
    exp = expected_outputs(cfg)
    got = [tuple(x) for x in obs['out']]
    end = obs['end']
    fault = cfg['fault']
    tag = f'{api}:{fault}'
    if fault == 'none':
      if common.multiset(got) != common.multiset(exp):
        lost = common.multiset(exp) - common.multiset(got)
        extra = common.multiset(got) - common.multiset(exp)
        res.append(v('multiset', ('lost' if lost else 'extra') + ':' + tag,
                     f'lost={dict(lost)} extra={dict(extra)}'))
      if end is None or end[0] != 'stop':
        res.append(v('end', f'not-exhausted:{tag}', f'{end}'))
      else:
        res.extend(self._check_returns(cfg, end[1], tag))
    else:
      extra = common.multiset(got) - common.multiset(exp)
      if extra:
        res.append(v('multiset', f'extra:{tag}', f'extra={dict(extra)}'))
      if fault == 'fail':
        if end != ['exc', 'ValueError', 'injected']:
          res.append(v('failure', f'not-surfaced:{tag}',
                       f'iteration ended with {end} although '
                       f"{cfg['fail_in']} raised at {cfg['fail_at']}"))
      elif fault == 'stop':
        if end is None:
          res.append(v('end', f'no-end:{tag}', ''))
        elif end[0] == 'exc':
          res.append(v('end', f'exception-on-stop:{tag}', f'{end}'))
        elif end[0] in ('stopped', 'stop') and len(got) > cfg['stop_after'] \
            and cfg.get('stop_how') == 'num_steps':
          res.append(v('end', f'overrun:{tag}',
                       f"{len(got)} outputs > num_steps={cfg['stop_after']}"))
    pool = obs.get('pool')
    if isinstance(pool, dict):
      if not pool['shutdown'] or pool['alive']:
        res.append(v('threads', f'pool-not-released:{tag}', f'{pool}'))
    left = common.leftover_repo_threads(out)
    if left and api != 'iterate_fn':
      res.append(v('threads', f'leak:{common.blocked_sig(left)}:{tag}', f'{left}'))
    return res

  def _check_returns(self, cfg, args, tag):
    api, n = cfg['api'], cfg['n']
    total = sum(cfg['items'])
    args = [tuple(a) if isinstance(a, list) else a for a in args]
    src_returns = [('ret', j) for j, r in enumerate(cfg['rets']) if r]
    res = []

    def cnt_check(k):
      cnts = [a for a in args if isinstance(a, tuple) and a and a[0] == 'cnt']
      if len(cnts) != k or sum(c[1] for c in cnts) != total or len(args) != k:
        res.append(v('returns', f'missing-return:{tag}',
                     f'StopIteration args {args}; expected {k} counters '
                     f'summing to {total}'))

    if n == 0 or api == 'iterate_fn':
      return res
    if api == 'pmap':
      # map() passes the source generator's StopIteration value through.
      if common.multiset(args) != common.multiset(src_returns):
        res.append(v('returns', f'missing-return:{tag}',
                     f'{args} != {src_returns}'))
    elif api == 'piter_fn':
      cnt_check(n)
    elif api == 'piter_multiplex':
      if common.multiset(args) != common.multiset(src_returns):
        res.append(v('returns', f'missing-return:{tag}',
                     f'{args} != {src_returns}'))
    elif api == 'piter':
      if cfg['use_fn']:
        cnt_check(n)
      elif len(cfg['items']) > 1 and \
          common.multiset(args) != common.multiset(src_returns):
        res.append(v('returns', f'missing-return:{tag}',
                     f'{args} != {src_returns}'))
    elif api == 'multiplex':
      nsrc = len(cfg['items'])
      if nsrc > 1:
        if cfg['use_fn']:
          cnt_check(nsrc)
        elif common.multiset(args) != common.multiset(src_returns):
          res.append(v('returns', f'missing-return:{tag}',
                       f'{args} != {src_returns}'))
      elif cfg['use_fn']:
        cnt_check(n)
    return res

  def shrink(self, cfg):
    if cfg['sim'].get('fine'):
      c = copy.deepcopy(cfg); c['sim']['fine'] = False; yield c
    if cfg['extra_workers']:
      c = copy.deepcopy(cfg); c['extra_workers'] = 0; yield c
    if cfg['n'] > 1:
      c = copy.deepcopy(cfg); c['n'] -= 1; yield c
    if cfg['buf'] > 0:
      c = copy.deepcopy(cfg); c['buf'] -= 1; yield c
    if cfg['mb'] > 0:
      c = copy.deepcopy(cfg); c['mb'] = 0; yield c
    if len(cfg['items']) > 1:
      for drop in range(len(cfg['items'])):
        if cfg['fault'] == 'fail' and cfg['fail_at'][0] == drop:
          continue
        c = copy.deepcopy(cfg)
        del c['items'][drop]
        del c['rets'][drop]
        if cfg['fault'] == 'fail' and c['fail_at'][0] > drop:
          c['fail_at'][0] -= 1
        if cfg['fault'] == 'stop':
          c['stop_after'] = min(c['stop_after'], sum(c['items']))
        yield c
    for j, k in enumerate(cfg['items']):
      if k > 0:
        if cfg['fault'] == 'fail' and cfg['fail_at'] == [j, k - 1]:
          continue
        c = copy.deepcopy(cfg)
        c['items'][j] -= 1
        if cfg['fault'] == 'stop':
          c['stop_after'] = min(c['stop_after'], sum(c['items']))
        yield c
    if cfg['fault'] == 'stop' and cfg['stop_after'] > 0:
      c = copy.deepcopy(cfg); c['stop_after'] -= 1; yield c
    for j, r in enumerate(cfg['rets']):
      if r:
        c = copy.deepcopy(cfg); c['rets'][j] = False; yield c

  def nontrivial(self, cfg, out):
    return out['switches'] > 2 and cfg['n'] > 0 and sum(cfg['items']) > 0

  def probes(self, cfg, out):
    p = []
    if cfg['api'] == 'multiplex' and cfg['n'] and len(cfg['items']) > cfg['n']:
      p.append('probe:more_sources_than_pool_threads')
      if cfg['fault'] == 'stop':
        p.append('probe:early_stop_with_queued_enqueue_tasks')
    return p


FAMILIES = {'par': ParFamily()}
