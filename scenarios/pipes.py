"""A small pipeline grammar shared by the pipeline-level scenarios.

A pipeline *spec* is explicit JSON: the data (n source elements, each a dict
batch of `rows` rows with integer columns), a list of operator specs, the
aggregates and an optional slice.  `build()` turns it into a real
`TreeTransform`; every function is a module-level callable so that the very
same spec can be shipped to workers (C16/C06).

Only operator combinations whose *sequential* run succeeds are generated: the
properties that use this grammar are about strategy-independence, crash/restore
and error skipping, not about the grammar.
"""

from __future__ import annotations

import dataclasses
import functools

import numpy as np

OPS = ('assign_y', 'assign_z', 'apply_xy', 'select', 'filter', 'rebatch',
       'sink', 'apply_scale')


# ---- module-level functions (picklable by reference) -------------------------
def f_double_plus(x):
  return x * 2 + 1


def f_add(x, y):
  return x + y


def f_apply_xy(i, x, g):
  return i, x + 3, g


def f_scale(i, x, g, *, k=5):
  return i, x * k, g


def f_keep(x):
  # keep a batch unless the sum of its x column is divisible by 3
  return int(np.sum(x)) % 3 != 0


def f_ident(*a):
  return a if len(a) > 1 else a[0]


@dataclasses.dataclass
class IntStats:
  """Exact, order-independent integer sufficient statistics of (id, x) rows.

  count / sum / sum of squares / xor and sum of per-row hashes: a dropped or
  doubled row or batch changes the result, and no rounding can hide it.
  """
  count: int = 0
  total: int = 0
  sumsq: int = 0
  xor: int = 0
  hsum: int = 0

  def as_agg_fn(self):
    from ml_metrics._src.aggregates import base
    return base.as_agg_fn(IntStats)

  def new(self, ids, xs):
    ids = [int(v) for v in np.asarray(ids).reshape(-1)]
    xs = [int(v) for v in np.asarray(xs).reshape(-1)]
    assert len(ids) == len(xs), (ids, xs)
    r = IntStats()
    for i, x in zip(ids, xs):
      h = (i * 1_000_003 + x * 7919 + 12345) & 0xFFFFFFFFFFFF
      r.count += 1
      r.total += x
      r.sumsq += x * x
      r.xor ^= h
      r.hsum += h
    return r

  def add(self, ids, xs):
    b = self.new(ids, xs)
    self.merge(b)
    return b

  def merge(self, other):
    self.count += other.count
    self.total += other.total
    self.sumsq += other.sumsq
    self.xor ^= other.xor
    self.hsum += other.hsum
    return self

  def result(self):
    return (self.count, self.total, self.sumsq, self.xor, self.hsum)

  def __call__(self, ids, xs):
    return self.new(ids, xs).result()


class TupleSum:
  """A functional aggregate: immutable tuple states, every step returns a new
  one (the Aggregatable protocol allows, but does not require, merging into
  the first state).  State = (rows, sum of x, sum of id*x)."""

  def __eq__(self, other):
    return isinstance(other, TupleSum)

  def __hash__(self):
    return hash(TupleSum)

  def create_state(self):
    return (0, 0, 0)

  def update_state(self, state, ids, xs):
    ids = [int(v) for v in np.asarray(ids).reshape(-1)]
    xs = [int(v) for v in np.asarray(xs).reshape(-1)]
    return (state[0] + len(xs), state[1] + sum(xs),
            state[2] + sum(i * x for i, x in zip(ids, xs)))

  def merge_states(self, states):
    states = list(states)
    return tuple(sum(s[k] for s in states) for k in range(3))

  def get_result(self, state):
    return ('tsum',) + tuple(state)

  def __call__(self, ids, xs):
    return self.get_result(self.update_state(self.create_state(), ids, xs))


class ListSink:
  """A sink that records what was written and whether it was closed."""

  def __init__(self):
    self.data = []
    self.closed = 0

  def write(self, data):
    self.data.append(np.asarray(data).reshape(-1).tolist())

  def close(self):
    self.closed += 1


# Sinks are looked up by name so that specs stay JSON.
SINKS = {}


def get_sink(name):
  return SINKS.setdefault(name, ListSink())


# ---- data --------------------------------------------------------------------
def make_data(spec):
  """The source elements: dict batches with int64 columns id, x, g."""
  n, rows = spec['n'], spec['rows']
  out = []
  rid = 0
  for b in range(n):
    ids = np.arange(rid, rid + rows, dtype=np.int64)
    rid += rows
    xs = (ids * 7 + spec.get('salt', 1)) % 11
    gs = ids % spec.get('groups', 2)
    out.append({'id': ids, 'x': xs, 'g': gs})
  return out


# ---- build ---------------------------------------------------------------------
def add_ops(t, ops, sink_prefix='s'):
  """Appends the operator specs to transform t."""
  for k, op in enumerate(ops):
    kind = op['op']
    if kind == 'assign_y':
      t = t.assign('y', fn=f_double_plus, input_keys='x')
    elif kind == 'assign_z':
      t = t.assign('z', fn=f_add, input_keys=('x', 'id'))
    elif kind == 'apply_xy':
      t = t.apply(fn=f_apply_xy, input_keys=('id', 'x', 'g'),
                  output_keys=('id', 'x', 'g'))
    elif kind == 'apply_scale':
      t = t.apply(fn=functools.partial(f_scale, k=op.get('k', 5)),
                  input_keys=('id', 'x', 'g'), output_keys=('id', 'x', 'g'))
    elif kind == 'select':
      t = t.select(('id', 'x', 'g'))
    elif kind == 'filter':
      t = t.filter(f_keep, input_keys='x')
    elif kind == 'rebatch':
      t = t.select(('id', 'x', 'g'), batch_size=op['size'])
    elif kind == 'sink':
      t = t.sink(get_sink(op['name']), input_keys='id')
    else:
      raise ValueError(kind)
  return t


def add_aggs(t, spec, aggs=None, prefix=''):
  from ml_metrics._src.aggregates import rolling_stats
  aggs = spec.get('aggs', []) if aggs is None else aggs
  first = True
  for a in aggs:
    if a == 'int':
      fn, ik, ok = IntStats().as_agg_fn(), ('id', 'x'), 'int'
    elif a == 'mv':
      fn, ik, ok = rolling_stats.MeanAndVariance().as_agg_fn(), 'x', 'mv'
    elif a == 'cnt':
      fn, ik, ok = rolling_stats.Counter().as_agg_fn(), 'x', 'cnt'
    elif a == 'mmc':
      fn, ik, ok = rolling_stats.MinMaxAndCount().as_agg_fn(), 'x', 'mmc'
    elif a == 'tsum':
      fn, ik, ok = TupleSum(), ('id', 'x'), 'tsum'
    else:
      raise ValueError(a)
    ok = prefix + ok
    if first:
      t = t.aggregate(fn=fn, input_keys=ik, output_keys=ok)
      first = False
    else:
      t = t.add_aggregate(fn=fn, input_keys=ik, output_keys=ok)
  if aggs and spec.get('slice') and not prefix:
    t = t.add_slice('g')
  return t


def build(spec, *, num_threads=0, data_source=None, stages=None, name='p'):
  """Builds the TreeTransform of `spec`.

  stages: None for one fused transform, or a list of cut points splitting the
  operator list into consecutive named stages chained together.
  """
  from ml_metrics._src.chainables import transform
  ops = spec['ops']
  early = spec.get('early')
  if early and not stages:
    # aggregates on an earlier named stage as well: always a chain
    stages = [early['cut']]
  if not stages:
    t = transform.TreeTransform.new(name=name, num_threads=num_threads)
    if data_source is not None:
      t = t.data_source(data_source)
    t = add_ops(t, ops)
    return add_aggs(t, spec)
  cuts = [0] + list(stages) + [len(ops)]
  whole = None
  for s in range(len(cuts) - 1):
    # num_threads: one number for every stage, or one per stage
    nt = num_threads[s] if isinstance(num_threads, (list, tuple)) else num_threads
    t = transform.TreeTransform.new(name=f'{name}{s}', num_threads=nt)
    if s == 0 and data_source is not None:
      t = t.data_source(data_source)
    t = add_ops(t, ops[cuts[s]:cuts[s + 1]])
    if s == 0 and early:
      t = add_aggs(t, spec, aggs=early['aggs'], prefix='e_')
    if s == len(cuts) - 2:
      t = add_aggs(t, spec)
    if t.is_noop:
      continue
    whole = t if whole is None else whole.chain(t)
  return whole


def sequence_source(spec, **kw):
  from ml_metrics._src.chainables import io
  return io.SequenceDataSource(make_data(spec), **kw)


# ---- observation helpers ---------------------------------------------------------
def rows_of(batch):
  """Rows (id, x, g, extra...) of one emitted batch, as tuples of ints."""
  if not isinstance(batch, dict):
    return [('raw', repr(batch))]
  keys = [k for k in ('id', 'x', 'g', 'y', 'z') if k in batch]
  cols = [np.asarray(batch[k]).reshape(-1).tolist() for k in keys]
  return [tuple(keys)] and [tuple((k, int(v)) for k, v in zip(keys, r))
                            for r in zip(*cols)]


def batch_key(batch):
  return tuple(rows_of(batch))


def norm_result(res):
  """agg_result -> plain comparable dict {key: value}."""
  if res is None:
    return None
  out = {}
  items = res.items() if hasattr(res, 'items') else []
  for k, val in items:
    out[repr(k)] = _norm_val(val)
  return out


def _norm_val(val):
  if isinstance(val, IntStats):
    return ['int'] + list(val.result())
  if hasattr(val, 'result') and hasattr(val, 'merge'):
    try:
      val = val.result()
    except Exception:  # pylint: disable=broad-exception-caught
      pass
  props = [n for n in ('count', 'mean', 'var', 'min', 'max')
           if isinstance(getattr(type(val), n, None), property)]
  if props:
    # public read-outs only: internals such as the shape of the last batch
    # legitimately depend on how the data was batched
    return {n: _norm_val(getattr(val, n)) for n in props}
  if dataclasses.is_dataclass(val) and not isinstance(val, type):
    d = {}
    for f in dataclasses.fields(val):
      x = getattr(val, f.name)
      if callable(x):
        continue
      d[f.name] = _norm_val(x)
    return d
  if isinstance(val, np.ndarray):
    return [_norm_val(x) for x in val.tolist()]
  if isinstance(val, (np.integer,)):
    return int(val)
  if isinstance(val, (np.floating, float)):
    return float(val)
  if isinstance(val, (list, tuple)):
    return [_norm_val(x) for x in val]
  if isinstance(val, dict):
    return {repr(k): _norm_val(x) for k, x in val.items()}
  if isinstance(val, (int, str, bool)) or val is None:
    return val
  return repr(val)


def results_equal(a, b, tol=1e-9):
  if type(a) is not type(b) and not (
      isinstance(a, (int, float)) and isinstance(b, (int, float))):
    return False
  if isinstance(a, dict):
    return a.keys() == b.keys() and all(results_equal(a[k], b[k], tol) for k in a)
  if isinstance(a, list):
    if a and a[0] == 'int':
      return a == b           # exact
    return len(a) == len(b) and all(results_equal(x, y, tol) for x, y in zip(a, b))
  if isinstance(a, float) or isinstance(b, float):
    if (a != a and b != b) or a == b:
      return True
    return abs(a - b) <= tol * max(1.0, abs(a), abs(b))
  return a == b


# ---- generation ------------------------------------------------------------------
def gen_early(rng, spec):
  """Adds aggregates on an earlier named stage of the pipeline to `spec`."""
  spec['early'] = {'cut': rng.randrange(0, len(spec['ops']) + 1),
                   'aggs': rng.choice([['int'], ['tsum'], ['int', 'tsum'],
                                       ['cnt']])}
  return spec


def gen_spec(rng, *, max_n=10, allow_filter=True, allow_sink=True,
             allow_rebatch=True, need_agg=True):
  n = rng.randrange(1, max_n + 1)
  nops = rng.randrange(0, 4)
  ops = []
  has_sink = False
  for pos in range(nops):
    kind = rng.choice(OPS)
    if kind == 'sink' and pos != nops - 1:
      # a sink makes SELF an output key: no assign may follow it (rejected at
      # build time), so the sink is only generated as the last operator
      kind = 'select'
    if kind == 'filter' and any(o['op'] == 'rebatch' for o in ops):
      # a batch-level predicate after re-batching depends on how rows were
      # grouped, which legitimately differs between strategies
      kind = 'assign_y'
    if kind == 'filter' and not allow_filter:
      kind = 'assign_y'
    if kind == 'sink':
      if not allow_sink or has_sink:
        kind = 'apply_xy'
      else:
        has_sink = True
    if kind == 'rebatch' and not allow_rebatch:
      kind = 'select'
    if kind == 'assign_y' and any(o['op'] == 'assign_y' for o in ops):
      kind = 'apply_xy'   # duplicate assign keys are rejected at build time
    if kind == 'assign_z' and any(o['op'] == 'assign_z' for o in ops):
      kind = 'apply_scale'
    op = {'op': kind}
    if kind == 'rebatch':
      op['size'] = rng.choice([1, 2, 3, 4])
    if kind == 'apply_scale':
      op['k'] = rng.choice([2, 5])
    if kind == 'sink':
      op['name'] = 'snk'
    if kind in ('apply_xy', 'apply_scale', 'select', 'rebatch'):
      # these drop assigned columns; later assigns may re-add them
      ops = [o for o in ops]
    ops.append(op)
  # an assign after an apply/select re-adding y is fine; an assign_y before a
  # later assign_y separated by apply is fine too (keys were dropped), but the
  # build-time duplicate check is per transform: keep at most one of each.
  aggs = []
  if need_agg or rng.random() < 0.8:
    aggs = ['int']
    if rng.random() < 0.5:
      aggs.append(rng.choice(['mv', 'cnt', 'mmc', 'tsum', 'tsum']))
  return {
      'n': n,
      'rows': rng.choice([1, 2, 3]),
      'salt': rng.randrange(1, 10),
      'groups': rng.choice([2, 3]),
      'ops': ops,
      'aggs': aggs,
      'slice': bool(aggs) and rng.random() < 0.3,
  }


def has_rebatch(spec):
  return any(o['op'] == 'rebatch' for o in spec['ops'])


# ---- distributed helpers -------------------------------------------------------
def define_sharded(spec, shard_index=0, num_shards=1, num_threads=0):
  """Pipeline definition shipped to workers (module-level => picklable)."""
  ds = sequence_source(spec).shard(shard_index, num_shards)
  return build(spec, num_threads=num_threads, data_source=ds)


def define_failing(spec, fail_shard, kind, shard_index=0, num_shards=1):
  """Like define_sharded, but shard `fail_shard` raises an application error."""
  if shard_index == fail_shard:
    raise {'ValueError': ValueError, 'KeyError': KeyError}[kind](
        f'application error in shard {shard_index}')
  return define_sharded(spec, shard_index, num_shards)
