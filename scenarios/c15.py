"""C15 — the prefetching generator protocol delivers the generator faithfully.

System: the real PrefetchedCourierServer (_init_iterator / _next_batch /
_stop_prefetch, its prefetch thread and IteratorQueue) and the client side
(`CourierClient.call('init_generator')`, `next_batch_from_generator`, and the
real `async_iterate` loop) over the simulated transport.  Swept per run:
prefetch size, requested batch size, generator length, return value, failure
position, ignore_error, a second init_generator (sequential or concurrent with
an in-flight request), shutdown at a drawn step.
"""

from __future__ import annotations

import copy

from scenarios import common
from scenarios import cluster
from scenarios.common import v


def make_gen(tag, n, ret, fail_at, stall_at=None):
  """Generator of (tag, i); raises at fail_at; returns ('ret', tag) if ret.

  With stall_at=k the source stalls (for 10^6 simulated seconds) before
  producing element k: a request for more than k elements then has to wait.
  """
  import time
  for i in range(n):
    if stall_at is not None and i == stall_at:
      time.sleep(1e6)
    if fail_at is not None and i == fail_at:
      raise ValueError(f'gen {tag} failed at {i}')
    yield (tag, i)
  if fail_at is not None and fail_at >= n:
    raise ValueError(f'gen {tag} failed at {fail_at}')
  if ret:
    return ('ret', tag)


def _elem(x):
  """JSON view of one element of a batch."""
  if isinstance(x, StopIteration):
    return ['END', repr(x.value)]
  if isinstance(x, Exception):
    return ['EXC', type(x).__name__, str(x)]
  return ['E', x[0], x[1]]


def _loss_kind(cfg, lost):
  """Names the loss of elements produced before a generator failure.

  The known defect F3 drops the part of the *failing batch* that had already
  been dequeued when the exception arrived: fewer than `bs` elements for a
  requested batch size bs >= 2, any number for bs == 0 ("as many as there
  are"), never any for bs == 1.  Anything larger is another defect.
  """
  bs = cfg['bs']
  if bs != 1 and (bs == 0 or lost <= bs - 1):
    return 'elements-before-failure-lost'
  return 'elements-before-failure-lost-beyond-failing-batch'


class PrefetchFamily(common.Family):
  pct_ok = False   # timed oracles: see harness.run_random
  prop = 'C15'
  name = 'prefetch'
  max_steps = 1_000_000

  def gen(self, rng, tier):
    n = rng.randrange(0, 10)
    scenario = rng.choice(['plain', 'plain', 'fail', 'reinit_seq',
                           'reinit_conc', 'shutdown', 'async_iterate',
                           'init_race'])
    cfg = {
        'scenario': scenario,
        'prefetch': rng.choice([1, 2, 3, 4]),
        # 0 = "as many as there are" (the default of _next_batch)
        'bs': rng.choice([0, 1, 2, 3, 5]),
        'n': n,
        'ret': rng.random() < 0.6,
        'fail_at': None,
        'ignore_error': False,
        'call_timeout': rng.choice([0, 5.0, 20.0]),
        'latency': rng.choice([0, 0, 1]),
        'sim': {'fine': rng.random() < 0.2,
                'stay': rng.choice([0.0, 0.5, 0.8])},
    }
    if scenario in ('fail',) or (scenario == 'async_iterate' and rng.random() < 0.4):
      cfg['fail_at'] = rng.randrange(0, n + 1)
      cfg['ignore_error'] = rng.random() < 0.3
    if scenario in ('reinit_seq', 'reinit_conc'):
      cfg['n2'] = rng.randrange(0, 7)
      cfg['ret2'] = rng.random() < 0.6
      # how many batches the first client pulls before the re-init
      cfg['pull_before'] = rng.randrange(0, 6)
      cfg['delay'] = rng.randrange(0, 400)
      if scenario == 'reinit_conc':
        # a delayed request of the first client may be served by the second
        # generator; end markers must tell whose they are
        cfg['ret'] = cfg['ret2'] = True
    if scenario == 'init_race':
      # 2-3 clients initialise their generators at the same time, possibly
      # over a partly consumed earlier one: whichever ends up installed, all
      # the others must have been stopped.
      cfg['pull_before'] = rng.randrange(0, 4)
      cfg['gen0'] = rng.random() < 0.6
      cfg['racers'] = [{'tag': t, 'n': rng.randrange(0, 9),
                        'ret': rng.random() < 0.6,
                        'delay': rng.randrange(0, 120)}
                       for t in ('A', 'B', 'C')[:rng.choice([2, 2, 3])]]
    if scenario == 'shutdown':
      cfg['delay'] = rng.randrange(0, 600)
      cfg['call_timeout'] = rng.choice([5.0, 20.0])
      # half of the time the source stalls, so that a next-batch request is
      # really waiting when the shutdown arrives
      cfg['stall_at'] = rng.randrange(0, n + 1) if rng.random() < 0.5 else None
    return cfg

  # ------------------------------------------------------------------------
  def drive(self, cfg, sim):
    import asyncio
    import queue
    import threading
    import courier
    from ml_metrics._src.chainables import lazy_fns
    from ml_metrics._src.utils import courier_utils

    if cfg['latency']:
      class Lat(courier.Policy):
        def on_request(self, call):
          return sim.draw([0.0, 0.001, 0.02], 'lat'), False

        def on_reply(self, call):
          return sim.draw([0.0, 0.001, 0.02], 'lat'), False
      courier.NET.policy = Lat()
    cl = cluster.Cluster(n_workers=1, prefetched=True, host=True,
                         prefetch_size=cfg['prefetch'],
                         ignore_error=cfg['ignore_error'])
    srv = cl.servers['w0']
    client = courier_utils.CourierClient(
        'w0', call_timeout=cfg['call_timeout'], heartbeat_threshold_secs=120,
        iterate_batch_size=cfg['bs'])
    client.wait_until_alive(deadline_secs=60)
    scenario = cfg['scenario']
    obs = {'streams': {}, 'inits': {}, 'flags': {}}

    def init(tag, n, ret, fail_at=None, stall_at=None):
      task = lazy_fns.trace(make_gen)(tag, n, ret, fail_at, stall_at)
      try:
        r = client.call(task, courier_method='init_generator').result()
        obs['inits'][tag] = ['ok', repr(r)]
        return r is None
      except Exception as e:  # pylint: disable=broad-exception-caught
        obs['inits'][tag] = ['exc', type(e).__name__, str(e)[:200]]
        return False

    def pull(name, max_batches=None, stop_flag=None):
      """Pulls batches until an end marker / exception element / error."""
      stream = obs['streams'].setdefault(name, [])
      k = 0
      while max_batches is None or k < max_batches:
        if stop_flag is not None and stop_flag():
          stream.append(['STOPPED-BY-CLIENT'])
          return
        try:
          raw = client.next_batch_from_generator(cfg['bs']).result()
          batch = lazy_fns.maybe_make(raw)
        except Exception as e:  # pylint: disable=broad-exception-caught
          name = type(e).__name__
          text = str(e)
          if name == 'StatusError' and 'raised on the server:' in text:
            # the transport wraps what the handler raised: keep its class
            inner = text.split('raised on the server:', 1)[1].strip()
            name = 'StatusError(' + inner.split(':', 1)[0].strip() + ')'
          stream.append(['CALL-EXC', name, text[:160]])
          return
        k += 1
        if not isinstance(batch, list):
          stream.append(['NOT-A-LIST', repr(batch)[:100]])
          return
        stream.append([_elem(x) for x in batch])
        if any(isinstance(x, Exception) for x in batch):
          return
        if not batch and k > 50:
          stream.append(['EMPTY-BATCHES'])
          return
      stream.append(['STOPPED-BY-CLIENT'])

    if scenario in ('plain', 'fail'):
      if init('A', cfg['n'], cfg['ret'], cfg['fail_at']):
        pull('A')
    elif scenario == 'async_iterate':
      rq = queue.SimpleQueue()
      task = courier_utils.GeneratorTask.new(
          lazy_fns.trace(make_gen)('A', cfg['n'], cfg['ret'], cfg['fail_at']))
      got = []

      async def run():
        async for x in client.async_iterate(task, generator_result_queue=rq):
          got.append(['E', x[0], x[1]])

      loop = asyncio.new_event_loop()
      end = ['ok']
      try:
        loop.run_until_complete(run())
      except Exception as e:  # pylint: disable=broad-exception-caught
        end = ['exc', type(e).__name__, str(e)[:160]]
      finally:
        loop.close()
      returned = []
      while not rq.empty():
        returned.append(repr(rq.get()))
      obs['async'] = {'got': got, 'end': end, 'returned': returned}
    elif scenario == 'reinit_seq':
      if init('A', cfg['n'], cfg['ret']):
        pull('A', max_batches=cfg['pull_before'])
      sim.count('fault:reinit')
      if init('B', cfg['n2'], cfg['ret2']):
        pull('B')
    elif scenario == 'reinit_conc':
      flag = {'reinit': False}
      ok = init('A', cfg['n'], cfg['ret'])

      def first():
        if ok:
          pull('A', stop_flag=lambda: flag['reinit'])

      def second():
        sim.wait_steps(cfg['delay'])
        flag['reinit'] = True
        obs['flags']['inflight_at_reinit'] = (
            courier.NET.handler_started[('w0', 'next_batch_from_generator')]
            - courier.NET.handler_finished[('w0', 'next_batch_from_generator')])
        sim.count('fault:reinit')
        if obs['flags']['inflight_at_reinit']:
          sim.count('probe:reinit_with_request_in_flight')
        if init('B', cfg['n2'], cfg['ret2']):
          pull('B')

      t1 = threading.Thread(target=first, name='clientA')
      t2 = threading.Thread(target=second, name='clientB')
      t1.start(); t2.start(); t1.join(); t2.join()
    elif scenario == 'init_race':
      if cfg['gen0'] and init('Z', cfg['n'], cfg['ret']):
        pull('Z', max_batches=cfg['pull_before'])

      def racer(r):
        sim.wait_steps(r['delay'])
        init(r['tag'], r['n'], r['ret'])

      ts = [threading.Thread(target=racer, args=(r,), name=f"client{r['tag']}")
            for r in cfg['racers']]
      sim.count('fault:concurrent_init', len(ts))
      for t in ts:
        t.start()
      for t in ts:
        t.join()
      pull('W')
      import time
      time.sleep(50.0)
      stuck = sim.threads_in('enqueue_from_iterator')
      obs['stuck_prefetch'] = [sim.stack_of(t)[:3] for t in stuck]
    elif scenario == 'shutdown':
      ok = init('A', cfg['n'], cfg['ret'], stall_at=cfg.get('stall_at'))

      def killer():
        sim.wait_steps(cfg['delay'])
        sim.count('fault:shutdown')
        srv.stop()

      t = threading.Thread(target=killer, name='killer')
      t.start()
      if ok:
        pull('A')
      t.join()
      # stop() only requests the shutdown; the server's own thread then stops
      # the prefetch.  Bounded liveness: 50 simulated seconds after the request
      # no next-batch request may still be blocked.
      import time
      time.sleep(50.0)
    # the prefetch thread of a finished / replaced generator must be gone
    th = srv._enqueue_thread  # pylint: disable=protected-access
    obs['enqueue_alive'] = bool(th is not None and th.is_alive())
    gen_q = srv._generator  # pylint: disable=protected-access
    obs['generator_exhausted'] = None if gen_q is None else bool(gen_q.exhausted)
    key = ('w0', 'next_batch_from_generator')
    obs['handlers_in_flight'] = (courier.NET.handler_started[key]
                                 - courier.NET.handler_finished[key])
    cl.stop_all()
    return obs

  # ------------------------------------------------------------------------
  def _check_stream(self, cfg, name, stream, tag, n, ret, fail_at, scen,
                    allow_stop=False, allow_foreign_tail=False, stolen=()):
    """Checks one client-visible stream against generator (tag, n, ret)."""
    res = []
    elems = []
    end = None
    for bi, batch in enumerate(stream):
      if batch and isinstance(batch[0], str):
        end = batch
        break
      for x in batch:
        if end is not None:
          res.append(v('protocol', f'element-after-end:{scen}',
                       f'{name}: {x} after {end} in {stream}'))
        if x[0] == 'E':
          elems.append((x[1], x[2]))
        else:
          end = x
    foreign = [e for e in elems if e[0] != tag]
    if foreign and not allow_foreign_tail:
      res.append(v('mixing', f'foreign-elements:{scen}',
                   f'{name} (generator {tag}) received {foreign}: {stream}'))
      return res
    if foreign:
      # A request that was in flight while the generator was replaced may be
      # served from the new generator (it cannot be told from a request that
      # arrived later); what must not happen is an old element after a new
      # one, or one batch holding both.
      tags = [e[0] for e in elems]
      first_new = tags.index(foreign[0][0])
      if any(t == tag for t in tags[first_new:]):
        res.append(v('mixing', f'old-after-new:{scen}', f'{name}: {stream}'))
      for batch in stream:
        if batch and not isinstance(batch[0], str):
          bt = {x[1] for x in batch if x[0] == 'E'}
          if len(bt) > 1:
            res.append(v('mixing', f'two-generators-in-one-batch:{scen}',
                         f'{name}: {batch}'))
      elems = [e for e in elems if e[0] == tag]
      if end is not None and end[0] in ('END', 'EXC'):
        end = ['STOPPED-BY-CLIENT']
    if allow_foreign_tail and end is not None and end[0] == 'END' and \
        end[1] != repr(('ret', tag)):
      # the end marker of the other generator (request served after re-init)
      end = ['STOPPED-BY-CLIENT']
    idx = [e[1] for e in elems]
    upto = n if fail_at is None else min(fail_at, n)
    if stolen:
      # elements of this generator that a concurrent in-flight request of the
      # other client received: together they must be each element once
      merged = sorted(idx + list(stolen))
      if merged != list(range(len(merged))) or idx != sorted(idx):
        res.append(v('elements', f'with-stolen:{scen}',
                     f'{name}: own {idx} + taken by the other client {list(stolen)}'))
        return res
      idx = merged
    if idx != list(range(len(idx))):
      kind = 'duplicate' if len(set(idx)) < len(idx) else (
          'gap' if sorted(idx) == idx else 'order')
      res.append(v('elements', f'{kind}:{scen}', f'{name}: indices {idx}'))
      return res
    if end is None:
      res.append(v('protocol', f'no-end:{scen}', f'{name}: {stream}'))
      return res
    if end[0] == 'END':
      want = repr(('ret', tag)) if ret else 'None'
      if fail_at is not None and not cfg['ignore_error']:
        res.append(v('failure', f'clean-end-instead-of-exception:{scen}',
                     f'{name}: {stream}'))
      elif len(idx) != upto:
        res.append(v('elements', f'lost-before-end:{scen}',
                     f'{name}: got {len(idx)} of {upto} elements before the '
                     f'end marker: {stream}'))
      elif end[1] != (want if fail_at is None else 'None'):
        res.append(v('end-marker', f'return-value:{scen}',
                     f'{name}: end marker carries {end[1]}, expected {want}'))
    elif end[0] == 'EXC':
      if fail_at is not None and not cfg['ignore_error'] and \
          end[1:] == ['ValueError', f'gen {tag} failed at {fail_at}']:
        if len(idx) != upto:
          res.append(v('failure', f'{_loss_kind(cfg, upto - len(idx))}:{scen}',
                       f'{name}: the generator produced {upto} elements before '
                       f'failing, the client received {len(idx)} '
                       f"(requested batch size {cfg['bs']}): {stream}"))
      elif allow_stop and end[1] == 'TimeoutError':
        pass
      else:
        res.append(v('protocol', f'unexpected-exception:{end[1]}:{scen}',
                     f'{name}: {stream}'))
    elif end[0] == 'STOPPED-BY-CLIENT':
      pass
    elif end[0] == 'CALL-EXC':
      if not (allow_stop and end[1] in ('TimeoutError', 'RuntimeError',
                                        'StatusError',
                                        'StatusError(TimeoutError)',
                                        'StatusError(RuntimeError)')):
        res.append(v('protocol', f'call-failed:{end[1]}:{scen}',
                     f'{name}: {stream}'))
    else:
      res.append(v('protocol', f'{end[0]}:{scen}', f'{name}: {stream}'))
    return res

  def check(self, cfg, out):
    scen = cfg['scenario']
    dl = common.deadlock_violation(out)
    if dl:
      dl['sig'] += f':{scen}'
      return [dl]
    if out.get('failure') is not None:
      return []
    if 'error' in out:
      e = out['error']
      return [v('driver', f'{type(e).__name__}:{scen}', repr(e))]
    obs = out['value']
    res = []
    st = obs['streams']
    for tag, r in obs['inits'].items():
      if r != ['ok', 'None'] and scen != 'shutdown':
        res.append(v('protocol', f'init-failed:{scen}', f'{tag}: {r}'))
    if scen in ('plain', 'fail') and 'A' in st:
      res += self._check_stream(cfg, 'client', st['A'], 'A', cfg['n'],
                                cfg['ret'], cfg['fail_at'], scen)
    elif scen == 'async_iterate':
      a = obs['async']
      idx = [x[2] for x in a['got']]
      upto = cfg['n'] if cfg['fail_at'] is None else min(cfg['fail_at'], cfg['n'])
      if idx != list(range(len(idx))):
        res.append(v('elements', f'order-or-duplicate:{scen}', f'{idx}'))
      if cfg['fail_at'] is None or cfg['ignore_error']:
        want_ret = [repr(('ret', 'A'))] if (
            cfg['ret'] and cfg['fail_at'] is None) else ['None']
        if a['end'] != ['ok']:
          res.append(v('protocol', f'client-loop-raised:{scen}', f"{a['end']}"))
        elif len(idx) != upto:
          res.append(v('elements', f'lost-before-end:{scen}',
                       f'{len(idx)} of {upto}'))
        elif a['returned'] != want_ret:
          res.append(v('end-marker', f'return-value:{scen}',
                       f"result queue holds {a['returned']}, expected {want_ret}"))
      else:
        if a['end'][0] != 'exc' or a['end'][1] != 'ValueError':
          res.append(v('failure', f'not-surfaced:{scen}', f"{a['end']}"))
        elif len(idx) != upto:
          res.append(v('failure', f'{_loss_kind(cfg, upto - len(idx))}:{scen}',
                       f'the generator produced {upto} elements before failing, '
                       f"the client loop yielded {len(idx)} (batch size {cfg['bs']})"))
    elif scen in ('reinit_seq', 'reinit_conc'):
      if 'A' in st:
        res += self._check_stream(cfg, 'clientA', st['A'], 'A', cfg['n'],
                                  cfg['ret'], None, scen, allow_stop=True,
                                  allow_foreign_tail=(scen == 'reinit_conc'))
      stolen = [x[2] for b in st.get('A', []) if b and not isinstance(b[0], str)
                for x in b if x[0] == 'E' and x[1] == 'B']
      if 'B' in st:
        res += self._check_stream(cfg, 'clientB', st['B'], 'B', cfg['n2'],
                                  cfg['ret2'], None, scen, stolen=stolen)
    elif scen == 'init_race':
      if 'Z' in st:
        res += self._check_stream(cfg, 'first client', st['Z'], 'Z', cfg['n'],
                                  cfg['ret'], None, scen)
      w = st.get('W', [])
      tags = {x[1] for b in w if b and not isinstance(b[0], str)
              for x in b if x[0] == 'E'}
      ends = [x[1] for b in w if b and not isinstance(b[0], str)
              for x in b if x[0] == 'END']
      by_tag = {r['tag']: r for r in cfg['racers']}
      # without any element the installed generator is known by its end
      # marker only; prefer an empty generator that explains it
      cands = sorted(tags) or sorted(
          (t for t, r in by_tag.items()
           if not ends or ends[0] == (repr(('ret', t)) if r['ret'] else 'None')),
          key=lambda t: (by_tag[t]['n'] != 0, t))
      if len(tags) > 1 or not cands or cands[0] not in by_tag:
        res.append(v('mixing', f'foreign-elements:{scen}', f'{w}'))
      else:
        r = by_tag[cands[0]]
        res += self._check_stream(cfg, 'final stream', w, r['tag'], r['n'],
                                  r['ret'], None, scen)
      if obs.get('stuck_prefetch'):
        res.append(v('replaced', f'generator-never-stopped:{scen}',
                     f"{len(obs['stuck_prefetch'])} prefetch thread(s) of "
                     'replaced generators are still blocked 50 s after the last '
                     f"initialisation returned: {obs['stuck_prefetch']}"))
    elif scen == 'shutdown' and 'A' in st:
      res += self._check_stream(cfg, 'client', st['A'], 'A', cfg['n'],
                                cfg['ret'], None, scen, allow_stop=True)
    if obs['handlers_in_flight']:
      res.append(v('blocked-request', f'handler-in-flight:{scen}',
                   f"{obs['handlers_in_flight']} next-batch handler(s) never "
                   'returned'))
    left = [t for t in common.leftover_repo_threads(out)
            if t['name'].startswith('rpc') and t['state'] == 'blocked'
            and ('next_batch' in t['name'] or 'init_generator' in t['name'])]
    if left:
      res.append(v('blocked-request', f'handler-thread:{common.blocked_sig(left)}:{scen}',
                   f'{left}'))
    return res

  def shrink(self, cfg):
    if cfg['sim'].get('fine'):
      c = copy.deepcopy(cfg); c['sim']['fine'] = False; yield c
    if cfg['latency']:
      c = copy.deepcopy(cfg); c['latency'] = 0; yield c
    if cfg['n'] > 0 and (cfg['fail_at'] is None or cfg['fail_at'] < cfg['n']):
      c = copy.deepcopy(cfg); c['n'] -= 1; yield c
    if cfg['fail_at']:
      c = copy.deepcopy(cfg); c['fail_at'] -= 1; yield c
    for k in ('prefetch', 'bs'):
      if cfg[k] > 1:
        c = copy.deepcopy(cfg); c[k] -= 1; yield c
    if cfg.get('n2'):
      c = copy.deepcopy(cfg); c['n2'] -= 1; yield c
    if cfg.get('racers'):
      if len(cfg['racers']) > 2:
        for i in range(len(cfg['racers'])):
          c = copy.deepcopy(cfg); del c['racers'][i]; yield c
      for i, r in enumerate(cfg['racers']):
        if r['delay']:
          c = copy.deepcopy(cfg); c['racers'][i]['delay'] //= 2; yield c
      if cfg.get('gen0'):
        c = copy.deepcopy(cfg); c['gen0'] = False; yield c
    if cfg.get('pull_before'):
      c = copy.deepcopy(cfg); c['pull_before'] -= 1; yield c
    if cfg.get('delay'):
      c = copy.deepcopy(cfg); c['delay'] //= 2; yield c
    if cfg['ret']:
      c = copy.deepcopy(cfg); c['ret'] = False; yield c

  def nontrivial(self, cfg, out):
    return out['switches'] > 5

  def probes(self, cfg, out):
    return [k for k in out['counters'] if k.startswith('probe:')]


FAMILIES = {'prefetch': PrefetchFamily()}
