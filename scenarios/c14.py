"""C14 — remote evaluation is observationally the same as local evaluation.

System: the real CourierServer._maybe_make, CourierClient.get_result /
async_get_result, RemoteObject, RemoteIterator, RemoteIteratorQueue and
lazy_fns, over the fake courier transport; 1-3 concurrent client threads;
optionally a shutdown (stop(), the shutdown RPC, or a kill of the node) at a
drawn moment while requests are in flight.
"""

from __future__ import annotations

import copy

from scenarios import common
from scenarios import cluster
from scenarios.common import v

RETRIABLE = ('TimeoutError', 'RuntimeError', 'StatusError')


# ---- expression specs --------------------------------------------------------
def gen_expr(rng, depth):
  """A JSON expression spec of integer type."""
  if depth <= 0 or rng.random() < 0.25:
    return ['lit', rng.randrange(-5, 10)]
  k = rng.choice(['add', 'mul', 'neg', 'boxget', 'boxitem', 'boxcall',
                  'boxplus', 'len', 'raise', 'boxfail', 'kwadd'])
  if k == 'kwadd':
    return [k, gen_expr(rng, depth - 1), gen_expr(rng, depth - 1)]
  if k in ('add', 'mul'):
    return [k, gen_expr(rng, depth - 1), gen_expr(rng, depth - 1)]
  if k == 'neg':
    return [k, gen_expr(rng, depth - 1)]
  if k == 'boxget':
    return [k, gen_expr(rng, depth - 1)]
  if k == 'boxitem':
    return [k, gen_expr(rng, depth - 1), rng.randrange(0, 4)]  # 3 -> IndexError
  if k == 'boxcall':
    return [k, gen_expr(rng, depth - 1), gen_expr(rng, depth - 1)]
  if k == 'boxplus':
    return [k, gen_expr(rng, depth - 1), rng.randrange(0, 4)]
  if k == 'len':
    return [k, rng.randrange(0, 5)]
  if k == 'raise':
    if rng.random() < 0.6:
      return ['lit', rng.randrange(0, 5)]
    return [k, rng.choice(['ValueError', 'KeyError', 'ZeroDivisionError',
                           'RuntimeError', 'TimeoutError', 'TypeError',
                           'OSError', 'LookupError', 'AssertionError',
                           'CustomError']), f'm{rng.randrange(100)}']
  if k == 'boxfail':
    if rng.random() < 0.6:
      return ['lit', rng.randrange(0, 5)]
    return [k, gen_expr(rng, depth - 1)]
  raise AssertionError(k)


def py_eval(e):
  """Plain-Python meaning of an expression spec."""
  from scenarios import remote_lib as L
  k = e[0]
  if k == 'lit':
    return e[1]
  if k == 'add':
    return L.add(py_eval(e[1]), py_eval(e[2]))
  if k == 'mul':
    return L.mul(py_eval(e[1]), py_eval(e[2]))
  if k == 'neg':
    return L.neg(py_eval(e[1]))
  if k == 'boxget':
    return L.Box(py_eval(e[1])).get()
  if k == 'boxitem':
    return L.Box(py_eval(e[1])).items[e[2]]
  if k == 'boxcall':
    return L.Box(py_eval(e[1]))(py_eval(e[2]))
  if k == 'boxplus':
    return L.Box(py_eval(e[1])).plus(e[2]).v
  if k == 'len':
    return len(L.mklist(e[1]))
  if k == 'raise':
    return L.boom2(e[1], e[2])
  if k == 'boxfail':
    return L.Box(py_eval(e[1])).fail()
  if k == 'kwadd':
    return L.kw_add(a=py_eval(e[1]), b=py_eval(e[2]))
  if k == 'ident':
    return L.ident(e[1])
  raise AssertionError(k)


def lazy(e):
  """The lazy expression (LazyFn tree) of an expression spec."""
  from ml_metrics._src.chainables import lazy_fns
  from scenarios import remote_lib as L
  t = lazy_fns.trace
  k = e[0]
  if k == 'lit':
    return e[1]
  if k == 'add':
    return t(L.add)(lazy(e[1]), lazy(e[2]))
  if k == 'mul':
    return t(L.mul)(lazy(e[1]), lazy(e[2]))
  if k == 'neg':
    return t(L.neg)(lazy(e[1]))
  if k == 'boxget':
    return t(L.Box)(lazy(e[1])).get()
  if k == 'boxitem':
    return t(L.Box)(lazy(e[1])).items[e[2]]
  if k == 'boxcall':
    return t(L.Box)(lazy(e[1]))(lazy(e[2]))
  if k == 'boxplus':
    return t(L.Box)(lazy(e[1])).plus(e[2]).v
  if k == 'len':
    return t(len)(t(L.mklist)(e[1]))
  if k == 'raise':
    return t(L.boom2)(e[1], e[2])
  if k == 'boxfail':
    return t(L.Box)(lazy(e[1])).fail()
  if k == 'kwadd':
    return t(L.kw_add)(a=lazy(e[1]), b=lazy(e[2]))
  if k == 'ident':
    return t(L.ident)(e[1])
  raise AssertionError(k)


def outcome(fn):
  try:
    return ['ok', repr(fn())]
  except StopIteration as e:
    return ['exc', 'StopIteration', repr(e.args)]
  except Exception as e:  # pylint: disable=broad-exception-caught
    return ['exc', type(e).__name__, str(e)]


def expected(op):
  kind = op['op']
  if kind in ('eval', 'async_eval'):
    return outcome(lambda: py_eval(op['expr']))
  if kind == 'robj':
    from scenarios import remote_lib as L
    b = L.Box(op['v'])
    return [outcome(lambda: b.v), outcome(lambda: b.plus(op['k']).get()),
            outcome(lambda: b.items[op['i']]), outcome(lambda: b(op['x'])),
            outcome(lambda: b.bump()), outcome(lambda: b.bump()),
            outcome(b.fail),
            outcome(lambda: b._priv), outcome(lambda: b._twice())]  # pylint: disable=protected-access
  if kind in ('iter', 'queue'):
    return list(range(op['n']))
  raise AssertionError(kind)


class RemoteFamily(common.Family):
  pct_ok = False   # timed oracles: see harness.run_random
  prop = 'C14'
  name = 'remote'
  max_steps = 3_000_000

  def gen(self, rng, tier):
    nclients = rng.choice([1, 2, 2, 3])
    clients = []
    for _ in range(nclients):
      ops = []
      for _ in range(rng.randrange(1, 5)):
        kind = rng.choice(['eval', 'eval', 'eval', 'async_eval', 'robj',
                           'iter', 'queue', 'slow_raise'])
        if kind == 'slow_raise':
          # an evaluation that takes a while and then fails with an
          # application error: a shutdown request can arrive in between
          ops.append({'op': kind, 'secs': rng.choice([0.3, 0.5, 1.0]),
                      'kind': rng.choice(['ValueError', 'KeyError',
                                          'ZeroDivisionError', 'CustomError']),
                      'msg': f's{rng.randrange(100)}'})
          continue
        if kind in ('eval', 'async_eval'):
          if rng.random() < 0.2:
            # values that are falsy / not integers, returned as they are
            # (no False / 0.0 next to 0: cached lazy calls compare their
            # arguments with ==, so ident(0) and ident(False) share a cache
            # entry - locally as well; that is cache semantics, not C14)
            expr = ['ident', rng.choice([0, '', [], None, {}, 'txt',
                                         [1, [2, 3]], {'k': [1, 2]}])]
          elif rng.random() < 0.15:
            expr = ['raise', rng.choice(['TimeoutError', 'TypeError', 'OSError',
                                         'CustomError', 'AssertionError']),
                    f'top{rng.randrange(100)}']
          else:
            expr = gen_expr(rng, rng.randrange(1, 4))
          ops.append({'op': kind, 'expr': expr, 'cache': rng.random() < 0.3})
        elif kind == 'robj':
          ops.append({'op': 'robj', 'v': rng.randrange(0, 6),
                      'k': rng.randrange(0, 4), 'i': rng.randrange(0, 4),
                      'x': rng.randrange(0, 5)})
        else:
          op = {'op': kind, 'n': rng.randrange(0, 5),
                'buf': rng.choice([0, 1, 2])}
          if kind == 'queue' and op['n'] and rng.random() < 0.3:
            # the producer of the served queue pauses before element `stall_at`
            # for longer than any call deadline, then goes on
            op['stall_at'] = rng.randrange(0, op['n'])
            op['stall'] = rng.choice([8.0, 30.0])
          ops.append(op)
      clients.append(ops)
    fault = rng.choice(['none', 'none', 'stop', 'shutdown_rpc', 'kill'])
    if fault == 'none' and rng.random() < 0.08:
      # a long-lived cached (stateful) object kept in use while some 140 other
      # cached results are created on the server: more than its result cache
      # holds, so the cache has to keep what is in use
      clients[rng.randrange(nclients)].append(
          {'op': 'churn', 'n': rng.randrange(132, 150),
           'every': rng.choice([2, 3, 5]), 'v': 1000 + rng.randrange(1000)})
    return {
        'clients': clients,
        'shared_iter': rng.choice([0, 0, 3, 6]),   # a list iterated by everybody
        'fault': fault,
        'fault_delay': rng.randrange(0, 1500),
        'call_timeout': rng.choice([0, 2.0, 5.0]) if fault == 'none'
                        else rng.choice([2.0, 5.0]),
        'hb_threshold': rng.choice([70, 120]),
        'latency': rng.choice([0, 0, 1]),
        'sim': {'fine': rng.random() < 0.15,
                'stay': rng.choice([0.0, 0.5, 0.8])},
    }

  # ------------------------------------------------------------------------
  def drive(self, cfg, sim):
    import asyncio
    import threading
    import courier
    from ml_metrics._src.chainables import lazy_fns
    from ml_metrics._src.utils import courier_utils, iter_utils
    from scenarios import remote_lib as L

    if cfg['latency']:
      class Lat(courier.Policy):
        def on_request(self, call):
          return sim.draw([0.0, 0.001, 0.01, 0.05], 'lat'), False

        def on_reply(self, call):
          return sim.draw([0.0, 0.001, 0.01, 0.05], 'lat'), False
      courier.NET.policy = Lat()
    cl = cluster.Cluster(n_workers=1, prefetched=False, host=True)
    addr = 'w0'
    client = courier_utils.CourierClient(
        addr, call_timeout=cfg['call_timeout'],
        heartbeat_threshold_secs=cfg['hb_threshold'])
    client.wait_until_alive(deadline_secs=60)
    t_fault = [None]
    results = [[None] * len(ops) for ops in cfg['clients']]
    shared = {'got': [[] for _ in cfg['clients']], 'ends': [None] * len(cfg['clients'])}
    shared_it = None
    if cfg['shared_iter']:
      ro = client.get_result(
          lazy_fns.trace(L.mklist)(cfg['shared_iter'], lazy_result_=True))
      shared_it = iter(ro)

    import time as _time
    slowest = {'secs': 0.0, 'what': ''}

    def timed(what, fn):
      """Runs one client-side step and remembers the longest one."""
      t0 = _time.monotonic()
      try:
        return fn()
      finally:
        d = _time.monotonic() - t0
        if d > slowest['secs']:
          slowest.update(secs=d, what=what)

    def outcome(fn, what='step'):  # pylint: disable=redefined-outer-name
      return globals()['outcome'](lambda: timed(what, fn))

    L.PROBE['log'] = []
    L.PROBE['shutdown'] = lambda: bool(cl.servers['w0']._shutdown_requested)  # pylint: disable=protected-access

    def run_op(op, tag=''):
      kind = op['op']
      if kind == 'slow_raise':
        e = lazy_fns.trace(L.slow_boom)(op['secs'], op['kind'], op['msg'], tag)
        return outcome(lambda: client.get_result(e), 'slow_raise')
      if kind == 'churn':
        box = lazy_fns.trace(L.Box)(op['v']).set_(_cache_result=True)
        bumps = []
        for i in range(op['n']):
          other = lazy_fns.trace(L.ident)(['churn', tag, i]).set_(
              _cache_result=True)
          r = outcome(lambda: client.get_result(other), 'churn')
          if r[0] != 'ok':
            return ['churn-failed', i, r]
          if i % op['every'] == 0:
            bumps.append(outcome(lambda: client.get_result(box.bump()), 'churn'))
        sim.count('probe:result_cache_cycled')
        return ['churn', bumps]
      if kind == 'eval':
        e = lazy(op['expr'])
        if op['cache'] and hasattr(e, 'set_'):
          e = e.set_(_cache_result=True)
        return outcome(lambda: client.get_result(e), 'eval')
      if kind == 'async_eval':
        e = lazy(op['expr'])
        loop = asyncio.new_event_loop()
        try:
          return outcome(
              lambda: loop.run_until_complete(client.async_get_result(e)),
              'async_eval')
        finally:
          loop.close()
      if kind == 'robj':
        def mk():
          return client.get_result(
              lazy_fns.trace(L.Box)(op['v'], lazy_result_=True))
        try:
          ro_ = mk()
        except Exception as e:  # pylint: disable=broad-exception-caught
          return [['exc', type(e).__name__, str(e)]] * 9
        stays = isinstance(ro_, courier_utils.RemoteObject)
        res = [outcome(lambda: ro_.v.result_(), 'robj'),
               outcome(lambda: ro_.plus(op['k']).get().result_(), 'robj'),
               outcome(lambda: ro_.items[op['i']].result_(), 'robj'),
               outcome(lambda: ro_(op['x']).result_(), 'robj'),
               outcome(lambda: ro_.bump().result_(), 'robj'),
               outcome(lambda: ro_.bump().result_(), 'robj'),
               outcome(lambda: ro_.fail().result_(), 'robj'),
               outcome(lambda: ro_._priv.result_(), 'robj'),  # pylint: disable=protected-access
               outcome(lambda: ro_._twice().result_(), 'robj')]  # pylint: disable=protected-access
        if not stays:
          res.append(['not-remote', type(ro_).__name__])
        return res
      if kind == 'iter':
        try:
          ro_ = client.get_result(
              lazy_fns.trace(L.mklist)(op['n'], lazy_result_=True))
          it = iter(ro_)
        except Exception as e:  # pylint: disable=broad-exception-caught
          return ['setup-exc', type(e).__name__, str(e)]
        got = []
        try:
          while True:
            got.append(timed('iter', lambda: next(it)))
        except StopIteration:
          again = outcome(lambda: next(it), 'iter')
          return ['done', got, again[:2]]
        except Exception as e:  # pylint: disable=broad-exception-caught
          return ['exc', got, type(e).__name__, str(e)]
      if kind == 'queue':
        q = iter_utils.IteratorQueue(op['buf'], name='rq')
        def feed_src():
          for i in range(op['n']):
            if op.get('stall_at') == i:
              sim.count('fault:producer_stall')
              _time.sleep(op['stall'])
            yield i

        t = threading.Thread(target=q.enqueue_from_iterator,
                             args=(feed_src(),), name='rq-feed')
        t.start()
        rq = courier_utils.RemoteIteratorQueue.new(q, server_addr=client)
        got = []
        try:
          while True:
            got.append(timed('queue', rq.get))
        except StopIteration:
          res = ['done', got, ['exc', 'StopIteration']]
        except Exception as e:  # pylint: disable=broad-exception-caught
          res = ['exc', got, type(e).__name__, str(e)]
          q.maybe_stop()
        t.join()
        return res
      raise AssertionError(kind)

    def client_thread(c):
      for j, op in enumerate(cfg['clients'][c]):
        results[c][j] = run_op(op, f'{c}.{j}')
      if shared_it is not None:
        try:
          while True:
            shared['got'][c].append(timed('shared', lambda: next(shared_it)))
        except StopIteration:
          shared['ends'][c] = ['stop']
        except Exception as e:  # pylint: disable=broad-exception-caught
          shared['ends'][c] = ['exc', type(e).__name__, str(e)]

    def faulter():
      sim.wait_steps(cfg['fault_delay'])
      import time
      t_fault[0] = time.monotonic()
      sim.count('fault:' + cfg['fault'])
      if cfg['fault'] == 'stop':
        cl.servers['w0'].stop()
      elif cfg['fault'] == 'shutdown_rpc':
        # the server-side shutdown request, sent over the wire (not
        # CourierClient.shutdown(), which also cancels this process's own
        # pending futures)
        courier.Client(addr, call_timeout=5).futures.shutdown()
      elif cfg['fault'] == 'kill':
        cl.kill('w0')

    ts = [threading.Thread(target=client_thread, args=(c,), name=f'client{c}')
          for c in range(len(cfg['clients']))]
    ft = None
    if cfg['fault'] != 'none':
      ft = threading.Thread(target=faulter, name='faulter')
      ft.start()
    for t in ts:
      t.start()
    for t in ts:
      t.join()
    if ft is not None:
      ft.join()
    leaked = [c.brief() for c in courier.NET.calls
              if c.method == 'maybe_make' and c.outcome == 'ok'
              and False]
    del leaked
    cl.stop_all()
    L.PROBE['shutdown'] = None
    return {'results': results, 'shared': shared, 'n_calls': courier.NET.n_calls,
            'slow_log': {t: f for t, f in L.PROBE['log']},
            'slowest': slowest}

  # ------------------------------------------------------------------------
  def check(self, cfg, out):
    fault = cfg['fault']
    dl = common.deadlock_violation(out)
    if dl:
      dl['sig'] += f':{fault}'
      return [dl]
    if out.get('failure') is not None:
      return []
    if 'error' in out:
      e = out['error']
      if fault != 'none' and type(e).__name__ in RETRIABLE:
        return []
      return [v('driver', f'{type(e).__name__}:{fault}', repr(e))]
    obs = out['value']
    res = []

    def retriable(o):
      return fault != 'none' and isinstance(o, list) and len(o) >= 2 and (
          o[0] == 'exc' and o[1] in RETRIABLE)

    for c, ops in enumerate(cfg['clients']):
      for j, op in enumerate(ops):
        got = obs['results'][c][j]
        kind = op['op']
        if kind == 'churn':
          want = [['ok', repr(k + 1)] for k in range(len(got[1]))] if (
              got and got[0] == 'churn') else None
          if want is None or got[1] != want:
            res.append(v('equivalence', f'cached-object-state:{fault}',
                         f'a cached stateful object used every {op["every"]} '
                         f'creations while {op["n"]} other cached results were '
                         f'created: bump() returned {got}'))
          continue
        if kind == 'slow_raise':
          exp = ['exc', op['kind'], op['msg']]
          if op['kind'] == 'KeyError':
            exp[2] = repr(op['msg'])
          flag = (obs.get('slow_log') or {}).get(f'{c}.{j}')
          if flag:
            # the server had been asked to shut down when the evaluation
            # failed: the answer must be the retriable error, not the raw one
            sim_probe = 'probe:failure_while_shutting_down'
            del sim_probe
            if not retriable(got):
              res.append(v('shutdown', f'raw-exception-while-shutting-down:{fault}',
                           f"{op}: the shutdown had been requested when the "
                           f"evaluation raised, the client got {got}"))
          elif got != exp and not retriable(got):
            res.append(v('equivalence', f'slow_raise:exception:{fault}',
                         f'{op}: remote {got} != local {exp}'))
          continue
        exp = expected(op)
        if kind in ('eval', 'async_eval'):
          if got != exp and not retriable(got):
            what = 'value' if got and got[0] == 'ok' else 'exception'
            res.append(v('equivalence', f'{kind}:{what}:{fault}',
                         f"expr {op['expr']}: remote {got} != local {exp}"))
        elif kind == 'robj':
          if len(got) > 9:
            res.append(v('stays-remote', f'robj:{fault}', f'{got[9]}'))
          for idx, (g, e) in enumerate(zip(got[:9], exp)):
            if g != e and not retriable(g):
              res.append(v('equivalence', f'robj:step{idx}:{fault}',
                           f'Box({op["v"]}) step {idx}: remote {g} != local {e}'))
        else:
          if got[0] == 'done':
            if got[1] != exp:
              res.append(v('iteration', f'{kind}:elements:{fault}',
                           f'got {got[1]}, expected {exp}'))
            if got[2] != ['exc', 'StopIteration'] and not retriable(got[2]):
              res.append(v('iteration', f'{kind}:exhaustion-once:{fault}',
                           f'next() after exhaustion gave {got[2]}'))
          elif fault == 'none' and not (
              op.get('stall') and 0 < cfg['call_timeout'] < op['stall']):
            res.append(v('iteration', f'{kind}:error:{fault}', f'{got}'))
          else:
            # under shutdown, or when the producer pauses for longer than the
            # call deadline: a prefix of the right elements, then a retriable
            # error (never a gap, never a silent end)
            # under shutdown: a prefix of the right elements, then a retriable
            # error
            g = got[1] if got[0] == 'exc' else []
            if g != exp[:len(g)]:
              res.append(v('iteration', f'{kind}:elements:{fault}',
                           f'got {g}, expected a prefix of {exp}'))
            name = got[2] if got[0] == 'exc' else got[1]
            if fault == 'none':
              fault_ = 'producer-stall'
              if name not in RETRIABLE:
                res.append(v('iteration', f'{kind}:not-retriable:{name}:{fault_}',
                             f'{got}'))
            elif name not in RETRIABLE:
              res.append(v('shutdown', f'{kind}:not-retriable:{name}:{fault}',
                           f'{got}'))
    if cfg['shared_iter']:
      allgot = sorted(x for g in obs['shared']['got'] for x in g)
      exp = list(range(cfg['shared_iter']))
      ends = obs['shared']['ends']
      if fault == 'none':
        if allgot != exp:
          res.append(v('iteration', f'shared:exactly-once:{fault}',
                       f'clients got {obs["shared"]["got"]}, expected {exp} once'))
        if any(e != ['stop'] for e in ends):
          res.append(v('iteration', f'shared:end:{fault}', f'{ends}'))
      else:
        if len(set(allgot)) != len(allgot) or not set(allgot) <= set(exp):
          res.append(v('iteration', f'shared:duplicate:{fault}',
                       f'{obs["shared"]["got"]}'))
      for g in obs['shared']['got']:
        if g != sorted(g):
          res.append(v('iteration', f'shared:order:{fault}', f'{g}'))
    # "rather than hanging": the client was configured with a call deadline T
    # and a heartbeat threshold H; no single step made through it - chains on
    # the remote objects and iterators it handed out included - stays pending
    # longer than noticing the death (H) plus one call (T).  100 s to spare: the
    # library busy-polls in places (async_wait_until_alive never yields) and
    # the simulated clock then advances in escalating jumps of up to 64 s.
    slow = obs.get('slowest') or {}
    if cfg['call_timeout'] > 0 and slow.get('secs', 0.0) > (
        cfg['hb_threshold'] + cfg['call_timeout'] + 100.0):
      res.append(v('shutdown', f"hang:{slow['what']}:{fault}",
                   f"a {slow['what']} step stayed pending for {slow['secs']:.1f} "
                   f"simulated s; client call_timeout={cfg['call_timeout']} "
                   f"heartbeat_threshold={cfg['hb_threshold']}"))
    left = [t for t in common.leftover_repo_threads(out)
            if t['name'].startswith('client')]
    if left:
      res.append(v('threads', f'client-blocked:{fault}', f'{left}'))
    return res

  def shrink(self, cfg):
    if cfg['sim'].get('fine'):
      c = copy.deepcopy(cfg); c['sim']['fine'] = False; yield c
    if cfg['latency']:
      c = copy.deepcopy(cfg); c['latency'] = 0; yield c
    if cfg['shared_iter']:
      c = copy.deepcopy(cfg); c['shared_iter'] = 0; yield c
    if len(cfg['clients']) > 1:
      for i in range(len(cfg['clients'])):
        c = copy.deepcopy(cfg); del c['clients'][i]; yield c
    for i, ops in enumerate(cfg['clients']):
      if len(ops) > 1:
        for j in range(len(ops)):
          c = copy.deepcopy(cfg); del c['clients'][i][j]; yield c
    if cfg['fault_delay'] > 0:
      c = copy.deepcopy(cfg); c['fault_delay'] //= 2; yield c

  def nontrivial(self, cfg, out):
    return out['switches'] > 5

  def probes(self, cfg, out):
    p = []
    if cfg['fault'] != 'none' and out['counters'].get('net:deadline_exceeded'):
      p.append('probe:deadline_exceeded_under_shutdown')
    if any((out.get('value') or {}).get('slow_log', {}).values()):
      p.append('probe:evaluation_failed_while_shutting_down')
    return p


FAMILIES = {'remote': RemoteFamily()}
