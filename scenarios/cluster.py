"""Helpers to stand up ml_metrics courier servers inside the simulation.

Every server is created and started with the calling thread's *node* set, so
that its threads (and the handler threads the fake transport spawns for it)
belong to that node; `courier.NET.kill(node)` then partitions exactly that
incarnation.
"""

from __future__ import annotations

import contextlib

import courier


@contextlib.contextmanager
def node(name):
  prev = courier._current_group()  # pylint: disable=protected-access
  courier._set_group(name)  # pylint: disable=protected-access
  try:
    yield
  finally:
    courier._set_group(prev)  # pylint: disable=protected-access


class Cluster:
  """A host server plus n worker servers."""

  def __init__(self, *, n_workers=1, prefetched=False, prefetch_size=2,
               host=True, ignore_error=False):
    from ml_metrics._src.chainables import courier_server
    self.cs = courier_server
    self.servers = {}
    self.incarnation = {}
    self.host = None
    self.prefetched = prefetched
    self.prefetch_size = prefetch_size
    self.ignore_error = ignore_error
    self.with_host = host
    if host:
      with node('host'):
        self.host = courier_server.CourierServer('host')
        self.host.start()
    for i in range(n_workers):
      self.start_worker(f'w{i}')

  def _new_server(self, name):
    clients = ['host'] if self.with_host else []
    if self.prefetched:
      return self.cs.PrefetchedCourierServer(
          name, clients=clients, prefetch_size=self.prefetch_size,
          ignore_error=self.ignore_error)
    return self.cs.CourierServer(name, clients=clients)

  def start_worker(self, name):
    inc = self.incarnation.get(name, 0) + 1
    self.incarnation[name] = inc
    nd = name if inc == 1 else f'{name}#{inc}'
    with node(nd):
      # A restarted process builds a brand-new server object.
      for key in list(self.cs._CourierServerSingleton._instances):  # pylint: disable=protected-access
        if getattr(key, 'server_name', None) == name:
          del self.cs._CourierServerSingleton._instances[key]  # pylint: disable=protected-access
      srv = self._new_server(name)
      srv.start()
    self.servers[name] = srv
    return srv

  def node_of(self, name):
    inc = self.incarnation[name]
    return name if inc == 1 else f'{name}#{inc}'

  def kill(self, name):
    courier.NET.kill(self.node_of(name))

  def addresses(self):
    return list(self.servers)

  def stop_all(self, join=True):
    """Graceful stop of every live server (and join of their run threads)."""
    alive = [s for n, s in self.servers.items()
             if not courier.NET.is_dead(self.node_of(n))]
    if self.host is not None:
      alive.append(self.host)
    threads = []
    for s in alive:
      try:
        threads.append(s.stop())
      except Exception:  # pylint: disable=broad-exception-caught
        pass
    if join:
      for t in threads:
        t.join()
