"""F2 on REAL threads and real primitives (no simulator): a producer blocked in
put() on a full bounded buffer stays blocked for ever after another producer
fails and the (batch) consumer has left with the exception.

Run: PYTHONPATH=/verif/fakes:/repo /venv/bin/python F2_real_threads.py
Prints 'blocked producer returned: False' on the defective tree.
"""
import threading
import time
from absl import logging
logging.set_verbosity(logging.FATAL)
from ml_metrics._src.utils import iter_utils

q = iter_utils.IteratorQueue(1, max_enqueuer=2, name='q')


def gen_b():
  yield 'b0'   # fills the buffer
  yield 'b1'   # blocks in put(): buffer full, nobody consumes yet


def gen_a():
  raise ValueError('injected')
  yield  # pylint: disable=unreachable


def run(g):
  try:
    q.enqueue_from_iterator(g)
  except ValueError:
    pass


b = threading.Thread(target=run, args=(gen_b(),), daemon=True)
b.start()
time.sleep(0.3)                       # B is now blocked in put('b1')
a = threading.Thread(target=run, args=(gen_a(),), daemon=True)
a.start()
a.join()                              # A failed: exception recorded
try:
  print('consumer got', q.get_batch(3, block=True))
except ValueError as e:
  print('consumer saw', repr(e))      # consumer leaves with the exception
b.join(2.0)
print('blocked producer returned:', not b.is_alive())
