"""F34: a generator request the client has given up on still acts on the worker.

Run:  PYTHONPATH=/verif/fakes:/verif:/repo /venv/bin/python findings/F34_abandoned_request_repro.py

The prefetching server keeps ONE generator and its protocol carries no request
or generator identity.  A client whose init_generator / next_batch call exceeds
its deadline re-submits the shard elsewhere or later; the abandoned request is
still executed when the (slow) worker gets to it:
  * a late init_generator REPLACES the generator of the shard that is being
    iterated now: the client goes on calling next_batch and receives the other
    shard's batches and state - one shard twice, one never, no error;
  * a late next_batch TAKES a batch of the current generator that nobody
    receives: a batch is lost while the shard's state is complete.
Sequential reproduction with the server's own handlers (no threads, no timing).
"""
import sys
from ml_metrics._src.chainables import courier_server, lazy_fns


def shard(tag, n):
  for i in range(n):
    yield (tag, i)
  return ('state', tag)


def batch(srv, k=1):
  return lazy_fns.maybe_make(srv._next_batch(k))  # pylint: disable=protected-access


def main():
  srv = courier_server.PrefetchedCourierServer('f34', prefetch_size=2)
  init = lambda tag, n: srv._init_iterator(  # pylint: disable=protected-access
      lazy_fns.pickler.dumps(lazy_fns.trace(shard)(tag, n)))
  # 1. late init_generator: the client gave up on init('B') and started 'A'
  assert init('A', 3) is None
  first = batch(srv)
  stale = init('B', 3)          # the abandoned request is handled only now
  rest = []
  while True:
    b = batch(srv)
    rest.append(b)
    if any(isinstance(x, Exception) for x in b):
      break
  print('client iterating shard A received:', first, rest)
  got_tags = {x[0] for b in [first] + rest for x in b if isinstance(x, tuple)}
  bad1 = 'B' in got_tags
  # 2. late next_batch: abandoned request takes a batch of the new generator
  assert init('C', 3) is None
  stolen = batch(srv)           # the abandoned next_batch of an earlier task
  seen = []
  while True:
    b = batch(srv)
    seen.append(b)
    if any(isinstance(x, Exception) for x in b):
      break
  print('abandoned request took', stolen, '- the live client received', seen)
  bad2 = ('C', 0) not in [x for b in seen for x in b]
  print('F34 reproduced' if bad1 and bad2 else 'not reproduced')
  return 0 if bad1 and bad2 else 1


if __name__ == '__main__':
  sys.exit(main())
