"""F8 on REAL threads: an early stop of a MultiplexIterator that has more data
sources than pool threads never returns.  The enqueue task of the second source
only starts after maybe_stop(); it re-registers with the (already stopped)
queue, which makes enqueue_done false again, fills the buffer and blocks for
ever; MultiplexIterator.maybe_stop() hangs in ThreadPoolExecutor.shutdown().

Run: PYTHONPATH=/repo /venv/bin/python F8_real_threads.py
Prints 'maybe_stop returned: False' on the defective tree.
"""
import threading
from absl import logging
logging.set_verbosity(logging.FATAL)
from ml_metrics._src.utils import iter_utils


class Src:
  def __iter__(self):
    return iter(range(10))


it = iter_utils.MultiplexIterator(data_sources=[Src(), Src()], parallism=1)
print('first element', next(it))
t = threading.Thread(target=it.maybe_stop, daemon=True)
t.start()
t.join(3.0)
print('maybe_stop returned:', not t.is_alive())
