"""F5 (known finding, C10) on REAL threads: the checkpoint of a threaded
pipeline records how far the worker threads have READ, not what was DELIVERED;
elements sitting in the multiplexing queue at the checkpoint are skipped after
the restore.

Run: PYTHONPATH=/repo /venv/bin/python F5_real_threads.py
"""
import time
from absl import logging
logging.set_verbosity(logging.FATAL)
from ml_metrics._src.chainables import io, transform

ds = io.SequenceDataSource(list(range(20)))
p = transform.TreeTransform.new(num_threads=2).data_source(ds)
it = p.make().iterate()
first = [next(it) for _ in range(4)]
time.sleep(0.3)                      # workers run ahead and fill the buffer
state = it.state
template = p.make().iterate()     # from_state needs an iterator to start from
rest = list(template.from_state(state))
template.maybe_stop()             # (its eagerly started threads must be released)
got = sorted(first + rest)
print('delivered', got)
print('never delivered:', sorted(set(range(20)) - set(got)))
it.maybe_stop()
