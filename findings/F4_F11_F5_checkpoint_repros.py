"""Sequential reproductions (no simulator) of the checkpoint/shard defects.

Run: PYTHONPATH=/repo /venv/bin/python F4_F11_F5_checkpoint_repros.py
Each line prints what the defective tree prints next to what is expected.
"""
import pickle
from absl import logging
logging.set_verbosity(logging.FATAL)
from ml_metrics._src.chainables import io, transform

# F4: second-generation restore of a SequenceDataSource repeats elements.
ds = io.SequenceDataSource(list(range(10)))
it = iter(ds)
a = [next(it) for _ in range(3)]
it = iter(ds.from_state(pickle.loads(pickle.dumps(it.state))))
b = [next(it) for _ in range(2)]
it = iter(ds.from_state(pickle.loads(pickle.dumps(it.state))))
print('F4  sequence, 2 generations :', a + b + list(it), 'expected', list(range(10)))

# F4b: a state captured right after a restore (before the first next()) loses
# the position of a ShardedIterable.
ds = io.ShardedIterable(list(range(6)))
it = ds.iterate()
a = [next(it), next(it)]
it = ds.iterate().from_state(it.state)
it = ds.iterate().from_state(it.state)     # checkpoint again at once
print('F4b iterable, restore twice :', a + list(it), 'expected', list(range(6)))

# F11: sharding an already sharded ShardedIterable replaces the shard, so a
# pre-sharded source run with worker threads iterates the whole data.
ds = io.ShardedIterable(list(range(8))).shard(1, 2)
p0 = transform.TreeTransform.new(num_threads=0).data_source(ds)
p2 = transform.TreeTransform.new(num_threads=2).data_source(ds)
print('F11 pre-sharded + 2 threads :', sorted(p2.make().iterate()), 'expected',
      sorted(p0.make().iterate()))
