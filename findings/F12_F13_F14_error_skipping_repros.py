"""Sequential reproductions (no simulator) of the error-skipping defects (C12).

Run: PYTHONPATH=/repo /venv/bin/python F12_F13_F14_error_skipping_repros.py
"""
from absl import logging
logging.set_verbosity(logging.FATAL)
import numpy as np
from ml_metrics._src.chainables import io, transform


def poison(bad):
  def fn(i):
    if any(int(v) in bad for v in np.asarray(i).reshape(-1)):
      raise ValueError(f'poison {bad}')
    return np.asarray(i) * 2
  return fn


data = [{'id': np.array([k])} for k in range(6)]

# F14 (fixed in 1f3cf70): a failing filter predicate aborts although skipping is on.
p = (transform.TreeTransform.new().data_source(io.SequenceDataSource(data))
     .filter(lambda i: poison({2})(i) is not None, input_keys='id'))
try:
  print('F14 filter + skipping    :', [int(b['id'][0]) for b in p.make().iterate(ignore_error=True)],
        'expected [0, 1, 3, 4, 5]')
except Exception as e:  # pylint: disable=broad-exception-caught
  print('F14 filter + skipping    : raised', type(e).__name__, e, '- expected [0, 1, 3, 4, 5]')

# F12 (known finding): assign with fn_batch_size + skipping: after one failing
# call the rest of the stream is dropped silently.
p = (transform.TreeTransform.new().data_source(io.SequenceDataSource(data))
     .assign('w', fn=poison({1}), input_keys='id', fn_batch_size=2, batch_size=1))
print('F12 assign fn_batch_size :', [int(b['id'][0]) for b in p.make().iterate(ignore_error=True)],
      'expected [2, 3, 4, 5] (call batch [0, 1] dropped)')


# F13 (known finding): the data source fails with a skippable error type while
# source-level skipping is off; the next operator (skipping on) swallows it and
# then fails with an unrelated IndexError - the original error is not the cause.
class Faulty(list):
  def __getitem__(self, i):
    if isinstance(i, slice):
      if 3 in range(*i.indices(len(self))):
        raise ValueError('corrupt record 3')
    elif i == 3:
      raise ValueError('corrupt record 3')
    return list.__getitem__(self, i)


p = (transform.TreeTransform.new()
     .data_source(io.SequenceDataSource(Faulty(data), ignore_error=False))
     .assign('w', fn=poison(set()), input_keys='id'))
try:
  print('F13 source error         :', [int(b['id'][0]) for b in p.make().iterate(ignore_error=True)])
except Exception as e:  # pylint: disable=broad-exception-caught
  chain = []
  while e is not None:
    chain.append(f'{type(e).__name__}: {e}')
    e = e.__cause__ or e.__context__
  print('F13 source error         : raised', chain, "- expected 'corrupt record 3' in the chain")
