"""F3 (known finding, C15): PrefetchedCourierServer._next_batch drops the
elements it has already dequeued when the generator's exception arrives in the
same batch: with a requested batch size > 1 the client receives [exc] instead
of [...elements produced before the failure, exc].  Sequential, no courier needed.

(Not repaired: the upstream test courier_server_test.test_batch_generator_with_shutdown,
which the pinned baseline cannot collect, asserts exactly this length-1 batch, so a
repair would contradict the maintainers' own expectation.)

Run: PYTHONPATH=/verif/fakes:/repo /venv/bin/python F3_next_batch_drops_elements.py
"""
import time
from absl import logging
logging.set_verbosity(logging.FATAL)
from ml_metrics._src.chainables import courier_server, lazy_fns


def gen():
  yield 0
  yield 1
  raise ValueError('generator failed after 2 elements')


server = courier_server.PrefetchedCourierServer('f3', prefetch_size=4)
server._init_iterator(lazy_fns.pickler.dumps(lazy_fns.trace(gen)()))
time.sleep(0.2)
batch = lazy_fns.pickler.loads(server._next_batch(5))
print('batch:', batch, '- expected [0, 1, ValueError(...)]')
