"""F10 (C03, no schedule needed): the same operators give a result when fused
but crash when chained as named stages, if a stage begins with filter():
FilterFn is built with output_keys=() and TreeFn._normalize_outputs indexes
output_keys[0] -> IndexError.

Run: PYTHONPATH=/repo /venv/bin/python F10_filter_first_in_stage.py
"""
from absl import logging
logging.set_verbosity(logging.FATAL)
from ml_metrics._src.chainables import transform

keep = lambda a: a % 2 == 0
fused = (transform.TreeTransform.new(name='p').data_source(range(5))
         .apply(lambda x: (x, x + 1), output_keys=('a', 'b'))
         .filter(keep, input_keys='a'))
print('fused  :', list(fused.make()))
s1 = (transform.TreeTransform.new(name='s1').data_source(range(5))
      .apply(lambda x: (x, x + 1), output_keys=('a', 'b')))
s2 = transform.TreeTransform.new(name='s2').filter(keep, input_keys='a')
try:
  print('chained:', list(s1.chain(s2).make()))
except IndexError as e:
  print('chained: IndexError', e)
