"""Fake of courier.python.testutil."""


def SetupMockBNS():  # pylint: disable=invalid-name
  """No-op: the fake transport resolves names itself."""
