"""In-process stand-in for the DeepMind `courier` RPC package (the network seam).

Only the surface google/ml-metrics uses is provided: `Server(name, port)` with
`Bind/Unbind/Start/Stop/Join/has_started/address/port`, `Client(address,
call_timeout)` with `.futures.<method>(...)` and the blocking `.<method>(...)`
form.  It is written against `threading`/`time` module attributes looked up at
call time, so the same code runs on real threads (stub-conformance runs of the
upstream tests) and inside the deterministic simulator (where those attributes
are the simulated ones).

Semantics (DESIGN.md §3.4): arguments and results cross by value (pickle round
trip); every request runs on its own handler thread; a call to an address that
is not started waits (gRPC wait_for_ready) and fails with a status error with
`.code == 4` when `call_timeout` expires, or waits for ever without one; a
handler exception comes back as a status error carrying its text; a deadline
does not cancel the handler; cancelling the client future drops the reply.

Faults are injected through `NET.policy` (per call) and `NET.kill/partition`.
"""

from __future__ import annotations

import collections
from concurrent import futures
import heapq
import pickle
import threading
import time
import traceback

__all__ = ['Server', 'Client', 'StatusError', 'NET']

DEADLINE_EXCEEDED = 4
UNKNOWN = 2
UNIMPLEMENTED = 12


class StatusError(Exception):
  """What a failed call raises: `.code` follows absl::StatusCode."""

  def __init__(self, code, message):
    super().__init__(message)
    self.code = code
    self.message = message

  def __reduce__(self):
    return (StatusError, (self.code, self.message))


class Call:
  """One RPC, as seen by the fault policy and the recorder."""
  __slots__ = ('idx', 'addr_idx', 'address', 'method', 'origin', 'future',
               'payload', 'timeout', 'start', 'outcome', 'node', 'faults',
               'faults_pending', 'ran_at', 'reply_mark')

  def __init__(self, idx, addr_idx, address, method, origin, future, payload,
               timeout, start):
    self.idx = idx
    self.addr_idx = addr_idx
    self.address = address
    self.method = method
    self.origin = origin
    self.future = future
    self.payload = payload
    self.timeout = timeout
    self.start = start
    self.outcome = None
    self.node = None
    self.faults = []
    self.faults_pending = ()
    self.ran_at = None     # simulated time at which the bound function started
    self.reply_mark = False  # the reply value mentions a TimeoutError

  def brief(self):
    return (self.idx, self.address, self.method, self.addr_idx, self.outcome,
            tuple(self.faults))


class Policy:
  """Default fault policy: no latency, no fault."""

  def on_request(self, call):  # -> (delay, drop)
    return 0.0, False

  def before_handler(self, call):
    """Runs on the handler thread before the bound function (may sleep)."""

  def on_reply(self, call):  # -> (delay, drop)
    return 0.0, False


def _current_group():
  """Node the calling thread belongs to ('' = the orchestrator/driver)."""
  try:
    from simkit import sched  # pylint: disable=g-import-not-at-top
  except ImportError:
    return ''
  s = sched.Sim.current
  if s is None or s.cur is None:
    return ''
  return s.cur.group


def _set_group(group):
  try:
    from simkit import sched  # pylint: disable=g-import-not-at-top
  except ImportError:
    return
  s = sched.Sim.current
  if s is not None and s.cur is not None:
    s.cur.group = group


def _count(key):
  try:
    from simkit import sched  # pylint: disable=g-import-not-at-top
  except ImportError:
    return
  s = sched.Sim.current
  if s is not None:
    s.count(key)


class Net:
  """The simulated network: endpoints, timers, faults, a call log."""

  def __init__(self):
    self.reset()

  def reset(self):
    self.endpoints = {}          # address or alias -> Server (started)
    self.waiting = collections.defaultdict(list)  # address -> [Call]
    self.n_calls = 0
    self.addr_calls = collections.Counter()
    self.policy = Policy()
    self.dead_nodes = set()
    self.calls = []              # every Call, in issue order
    self.record = True
    self._events = []
    self._seq = 0
    self._cond = None
    self._thread = None
    self._port = 10000
    self.handler_started = collections.Counter()  # (address, method) -> n
    self.handler_finished = collections.Counter()

  # ---- timers --------------------------------------------------------------
  def _ensure_thread(self):
    if self._cond is None:
      self._cond = threading.Condition(threading.Lock())
    if self._thread is None:
      self._thread = threading.Thread(
          target=self._loop, name='simnet-timers', daemon=True)
      group = _current_group()
      _set_group('net')
      try:
        self._thread.start()
      finally:
        _set_group(group)

  def _loop(self):
    cond = self._cond
    while True:
      with cond:
        while True:
          if self._cond is not cond:
            return
          now = time.monotonic()
          if self._events and self._events[0][0] <= now:
            _, _, fn = heapq.heappop(self._events)
            break
          timeout = self._events[0][0] - now if self._events else None
          cond.wait(timeout)
      if fn is not None:
        fn()

  def at(self, delay, fn):
    """Runs fn after `delay` seconds (inline when delay <= 0)."""
    if delay is None or delay <= 0:
      fn()
      return None
    self._ensure_thread()
    with self._cond:
      self._seq += 1
      ev = [time.monotonic() + delay, self._seq, fn]
      heapq.heappush(self._events, ev)
      self._cond.notify()
    return ev

  # ---- faults --------------------------------------------------------------
  def kill(self, node):
    """Partitions `node` for ever: nothing it sends or answers arrives."""
    self.dead_nodes.add(node)
    for addr, srv in list(self.endpoints.items()):
      if srv.node == node:
        del self.endpoints[addr]
    _count('fault:death')

  def is_dead(self, node):
    return node in self.dead_nodes

  # ---- calls ---------------------------------------------------------------
  def new_port(self):
    self._port += 1
    return self._port

  def issue(self, client, method, args, kwargs):
    f = futures.Future()
    self.n_calls += 1
    self.addr_calls[client.address] += 1
    payload = pickle.dumps((args, kwargs))
    call = Call(self.n_calls, self.addr_calls[client.address], client.address,
                method, _current_group(), f, payload, client.call_timeout,
                time.monotonic())
    if self.record:
      self.calls.append(call)
    if call.origin in self.dead_nodes:
      call.outcome = 'dropped:dead-origin'
      return f
    if call.timeout:
      self.at(call.timeout, lambda: self._deadline(call))
    delay, drop = self.policy.on_request(call)
    if drop:
      call.faults.append('drop_request')
      _count('fault:drop_request')
      return f
    if delay:
      _count('fault:delay_request')
    self.at(delay, lambda: self._deliver(call))
    return f

  def _deadline(self, call):
    if call.future.done():
      return
    try:
      call.future.set_exception(
          StatusError(DEADLINE_EXCEEDED, 'Deadline Exceeded'))
      if call.outcome is None:
        call.outcome = 'deadline'
      _count('net:deadline_exceeded')
    except futures.InvalidStateError:
      pass

  def _deliver(self, call):
    if call.future.done():
      return
    srv = self.endpoints.get(call.address)
    if srv is None or not srv.has_started or srv.node in self.dead_nodes:
      # wait_for_ready: park the request until a server starts there.
      self.waiting[call.address].append(call)
      return
    call.node = srv.node
    t = threading.Thread(
        target=self._handle, args=(srv, call),
        name=f'rpc{call.idx}:{call.address}:{call.method}', daemon=True)
    group = _current_group()
    _set_group(srv.node)
    try:
      t.start()
    finally:
      _set_group(group)

  def _handle(self, srv, call):
    key = (call.address, call.method)
    self.handler_started[key] += 1
    try:
      self.policy.before_handler(call)
      fn = srv.handlers.get(call.method)
      if fn is None:
        ok, result = False, StatusError(
            UNIMPLEMENTED, f'method {call.method} not found')
      else:
        args, kwargs = pickle.loads(call.payload)
        call.ran_at = time.monotonic()
        try:
          value = fn(*args, **kwargs)
          # a bytes search, nothing is unpickled: no effect on the schedule
          call.reply_mark = isinstance(value, bytes) and b'TimeoutError' in value
          result = pickle.dumps(value)
          ok = True
        except Exception as e:  # pylint: disable=broad-exception-caught
          text = ''.join(traceback.format_exception_only(type(e), e)).strip()
          ok, result = False, StatusError(
              UNKNOWN, f'Python exception was raised on the server:\n{text}')
    finally:
      self.handler_finished[key] += 1
    if srv.node in self.dead_nodes:
      call.outcome = 'reply-dropped:dead'
      return
    delay, drop = self.policy.on_reply(call)
    if drop:
      call.faults.append('drop_reply')
      _count('fault:drop_reply')
      return
    if delay:
      _count('fault:delay_reply')
    self.at(delay, lambda: self._complete(call, ok, result))

  def _complete(self, call, ok, result):
    f = call.future
    if f.done():
      if call.outcome == 'deadline':
        _count('net:reply_after_deadline')
      return
    try:
      if ok:
        f.set_result(pickle.loads(result))
        call.outcome = 'ok'
      else:
        f.set_exception(result)
        call.outcome = 'error'
    except futures.InvalidStateError:
      pass

  def server_started(self, srv):
    self.endpoints[srv.address] = srv
    if srv.name:
      self.endpoints[srv.name] = srv
    for addr in (srv.address, srv.name):
      if addr and self.waiting.get(addr):
        pending, self.waiting[addr] = self.waiting[addr], []
        for call in pending:
          self._deliver(call)

  def server_stopped(self, srv):
    for addr, s in list(self.endpoints.items()):
      if s is srv:
        del self.endpoints[addr]


NET = Net()


class Server:
  """Fake courier.Server."""

  def __init__(self, name=None, port=None, **unused_kwargs):
    self.name = name
    self._port = port or NET.new_port()
    self.handlers = {}
    self.has_started = False
    self.node = _current_group() or (name or f'localhost:{self._port}')

  @property
  def address(self):
    return f'localhost:{self._port}'

  @property
  def port(self):
    return self._port

  def Bind(self, name, fn):  # pylint: disable=invalid-name
    self.handlers[name] = fn

  def Unbind(self, name):  # pylint: disable=invalid-name
    self.handlers.pop(name, None)

  def Start(self):  # pylint: disable=invalid-name
    self.has_started = True
    NET.server_started(self)

  def Stop(self):  # pylint: disable=invalid-name
    self.has_started = False
    NET.server_stopped(self)

  def Join(self):  # pylint: disable=invalid-name
    pass


class _Futures:

  def __init__(self, client):
    self._client = client

  def __getattr__(self, method):
    if method.startswith('__'):
      raise AttributeError(method)
    client = self._client

    def call(*args, **kwargs):
      return NET.issue(client, method, args, kwargs)

    return call


class Client:
  """Fake courier.Client."""

  def __init__(self, address, call_timeout=None, **unused_kwargs):
    self.address = address
    if hasattr(call_timeout, 'total_seconds'):
      call_timeout = call_timeout.total_seconds()
    self.call_timeout = call_timeout or None
    self.futures = _Futures(self)

  def __getattr__(self, method):
    if method.startswith('_'):
      raise AttributeError(method)
    fut = getattr(self.futures, method)
    return lambda *a, **k: fut(*a, **k).result()
