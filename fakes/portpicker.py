"""Fake portpicker: deterministic port numbers from the simulated network."""
import courier


def pick_unused_port():
  return courier.NET.new_port()
