"""An asyncio event loop that lives inside the deterministic scheduler.

Only the selector, the self-pipe and the clock are replaced; `_run_once`,
handles, tasks, futures, `run_in_executor`, `wrap_future`,
`run_coroutine_threadsafe`, `wait_for` and async generators are asyncio's own.
"""

import asyncio
from asyncio import base_events
import threading

from simkit import sched


class _SimSelector:
  """select(timeout) parks the loop thread in the simulator (virtual time)."""

  def __init__(self):
    self._cond = threading.Condition(threading.Lock())
    self._woken = False

  def select(self, timeout=None):
    with self._cond:
      if not self._woken:
        if timeout is None or timeout > 0:
          self._cond.wait(timeout)
      self._woken = False
    return []

  def wake(self):
    with self._cond:
      self._woken = True
      self._cond.notify_all()

  def close(self):
    pass

  def get_map(self):
    return {}


class SimEventLoop(base_events.BaseEventLoop):
  """BaseEventLoop whose idle wait and clock belong to the simulator."""

  def __init__(self):
    super().__init__()
    self._selector = _SimSelector()
    self._clock_resolution = 1e-9

  def time(self):
    return sched.sim_monotonic()

  def _process_events(self, event_list):
    pass

  def _write_to_self(self):
    self._selector.wake()

  def _make_self_pipe(self):
    pass

  def _close_self_pipe(self):
    pass

  def close(self):
    if self.is_running():
      raise RuntimeError('Cannot close a running event loop')
    if self.is_closed():
      return
    super().close()


class SimPolicy(asyncio.DefaultEventLoopPolicy):
  _loop_factory = SimEventLoop


def install():
  asyncio.set_event_loop_policy(SimPolicy())
  # Deterministic task names are not needed (names are never observed by the
  # system under test) but the global counter must not leak between runs.


def reset():
  import asyncio.tasks as tasks  # pylint: disable=g-import-not-at-top
  import itertools
  tasks._task_name_counter = itertools.count(1).__next__  # pylint: disable=protected-access
