"""Replay and minimisation of recorded violations (run in a fresh process).

  replay.py run <file>                     exit 0 and print JSON verdict
  replay.py shrink <in> <out> <budget_s>   minimise cfg, then schedule
"""

from __future__ import annotations

import copy
import json
import os
import sys
import time

VERIF = os.path.dirname(os.path.dirname(os.path.abspath(__file__)))
if VERIF not in sys.path:
  sys.path.insert(0, VERIF)


def _sigs(res):
  return [vi['sig'] for vi in res['violations']]


def replay_once(rec):
  from simkit import harness
  fam = harness.load_family(rec['family'])
  res = harness.run_replay(fam, rec['cfg'], rec['decisions'])
  return res


def cmd_run(path):
  rec = json.load(open(path))
  want = rec['violation']['sig']
  res = replay_once(rec)
  sigs = _sigs(res)
  verdict = {
      'reproduced': want in sigs,
      'sig': want,
      'got_sigs': sigs,
      'digest': res['digest'],
      'digest_matches': res['digest'] == rec.get('digest'),
      'diverged': res.get('diverged', 0),
      'steps': res['steps'],
      'violations': [vi for vi in res['violations'] if vi['sig'] == want][:1],
      'other': [vi['msg'][-600:] for vi in res['violations'] if vi['sig'] != want][:2],
  }
  if 'error' in res:
    from simkit import sched
    verdict['driver_error'] = sched.format_exc(res['error'])[-1500:]
  print('REPLAY-VERDICT ' + json.dumps(verdict))
  return 0


def shrink(rec, budget_s, log=lambda *a: None):
  """Returns a minimised copy of rec (same violation signature)."""
  from simkit import harness
  fam = harness.load_family(rec['family'])
  want = rec['violation']['sig']
  t_end = time.perf_counter() + budget_s
  cfg = rec['cfg']
  decisions = list(rec['decisions'])
  best_vi = rec['violation']
  tries = 0

  def left():
    return t_end - time.perf_counter()

  # 1. configuration (workload, fault plan): accept a simpler cfg if some
  #    schedule out of a few seeds still shows the same signature.
  improved = True
  while improved and left() > 0:
    improved = False
    for cand in fam.shrink(cfg):
      if left() <= 0:
        break
      found = None
      # First try the recorded schedule on the smaller cfg, then fresh seeds.
      res = harness.run_replay(fam, cand, decisions)
      tries += 1
      if want in _sigs(res):
        found = res
      else:
        for j in range(24):
          if left() <= 0:
            break
          res = harness.run_cfg(fam, cand, 7919 * j + 13)
          tries += 1
          if want in _sigs(res):
            found = res
            break
      if found is not None:
        cfg = cand
        decisions = list(found['decisions'])
        best_vi = [vi for vi in found['violations'] if vi['sig'] == want][0]
        improved = True
        log('cfg', json.dumps(cfg)[:200])
        break

  # 2. schedule: replace decisions by 0 ("keep running the current thread")
  #    in shrinking blocks, from the end backwards.
  def ok(ds):
    nonlocal tries, best_vi
    res = harness.run_replay(fam, cfg, ds)
    tries += 1
    if want in _sigs(res):
      best_vi = [vi for vi in res['violations'] if vi['sig'] == want][0]
      return res
    return None

  res = ok(decisions)
  if res is not None:
    decisions = list(res['decisions'])
    n = len(decisions)
    block = max(n // 2, 1)
    while block >= 1 and left() > 0:
      i = n
      changed = False
      while i > 0 and left() > 0:
        lo = max(i - block, 0)
        if any(decisions[lo:i]):
          cand = decisions[:lo] + [0] * (i - lo) + decisions[i:]
          r = ok(cand)
          if r is not None:
            decisions = list(r['decisions'])
            n = len(decisions)
            changed = True
        i = lo
      if block == 1 and not changed:
        break
      block = block // 2 if block > 1 else (1 if changed else 0)
    while decisions and decisions[-1] == 0:
      decisions.pop()
  final = harness.run_replay(fam, cfg, decisions)
  if want not in _sigs(final):
    # Should not happen; fall back to the original record.
    return dict(rec, minimised=False)
  out = dict(rec)
  out.update({
      'cfg': cfg, 'decisions': decisions, 'digest': final['digest'],
      'violation': [vi for vi in final['violations'] if vi['sig'] == want][0],
      'steps': final['steps'], 'minimised': True, 'shrink_tries': tries,
      'forced_switches': sum(1 for d in decisions if d),
      'tail': [list(map(str, e)) for e in final['tail'][-160:]],
      'thread_names': {str(k): v for k, v in final['thread_names'].items()},
      'blocked_at_end': (final['failure'].detail.get('threads')
                         if final.get('failure') is not None else
                         final.get('leftover')),
  })
  return out


def cmd_shrink(src, dst, budget):
  rec = json.load(open(src))
  out = shrink(rec, float(budget))
  json.dump(out, open(dst, 'w'), indent=1)
  print('SHRUNK ' + json.dumps({
      'minimised': out.get('minimised'), 'decisions': len(out['decisions']),
      'forced_switches': out.get('forced_switches'),
      'tries': out.get('shrink_tries')}))
  return 0


if __name__ == '__main__':
  import faulthandler
  faulthandler.dump_traceback_later(600, exit=True)
  try:
    os.sched_setaffinity(0, {int(os.environ.get('VERIF_CPU', '0'))})
  except (OSError, ValueError):
    pass
  cmd = sys.argv[1]
  if cmd == 'run':
    rc = cmd_run(sys.argv[2])
  elif cmd == 'shrink':
    rc = cmd_shrink(sys.argv[2], sys.argv[3], sys.argv[4])
  else:
    rc = 2
  sys.stdout.flush()
  os._exit(rc)  # pylint: disable=protected-access
