"""Per-property check definitions: families, run counts, evidence texts."""

REAL_COMMON = [
    'ml_metrics (unmodified, imported from /repo working tree)',
    "CPython threading.Condition/RLock/Event/Semaphore (pure-Python classes, on the simulated lock)",
    'CPython queue.Queue and queue._PySimpleQueue',
    'CPython concurrent.futures (ThreadPoolExecutor, Future, wait, as_completed)',
]
STUB_COMMON = [
    '_thread.allocate_lock -> simkit.sched.SimLock (modelled blocking, seeded scheduling)',
    'threading.Thread -> simkit.sched.SimThread (real OS thread gated by the scheduler)',
    'time.time/monotonic/sleep/perf_counter -> virtual clock',
    'queue.SimpleQueue (C) -> queue._PySimpleQueue (stdlib pure-Python twin)',
]
ASSUME_COMMON = [
    'pre-emption happens at synchronisation operations, thread start/join, sleeps and (in a '
    'fraction of runs) at function entry inside the concurrent modules of ml_metrics; switches '
    'in the middle of straight-line attribute updates are not explored',
    'sampling: a clean batch is evidence, not proof',
]

CHECKS = {
    'C04': {
        'families': [['c04:queue', 1.0]],
        'runs': {'quick': 30000, 'thorough': 1500000},
        'budget': {'quick': 100, 'thorough': 1500},
        'level': 'exploration',
        'rule': ('each evaluation is one simulated execution: a seeded workload (producers, items, '
                 'return values, consumers and their dequeue modes, capacity, batch sizes) run under '
                 'a seeded schedule; a run is non-trivial if it produced at least one item and had '
                 'more than two context switches; distinct = distinct digests of the full event log'),
        'real': REAL_COMMON,
        'stub': STUB_COMMON,
        'assumptions': ASSUME_COMMON + [
            'get_nowait() is treated as an internal helper (it needs the dequeue lock) and is not '
            'used as a consumer mode',
            'with several producers max_enqueuer is set to the number of producers, as every '
            'in-repo caller does'],
        'probes': [],
    },
}
