"""Per-property check definitions: families, run counts, evidence texts."""

REAL_COMMON = [
    'ml_metrics (unmodified, imported from /repo working tree)',
    "CPython threading.Condition/RLock/Event/Semaphore (pure-Python classes, on the simulated lock)",
    'CPython queue.Queue and queue._PySimpleQueue',
    'CPython concurrent.futures (ThreadPoolExecutor, Future, wait, as_completed)',
]
STUB_COMMON = [
    '_thread.allocate_lock -> simkit.sched.SimLock (modelled blocking, seeded scheduling)',
    'threading.Thread -> simkit.sched.SimThread (real OS thread gated by the scheduler)',
    'time.time/monotonic/sleep/perf_counter -> virtual clock',
    'queue.SimpleQueue (C) -> queue._PySimpleQueue (stdlib pure-Python twin)',
]
ASSUME_COMMON = [
    'pre-emption points: every lock operation always; in a drawn share of the runs also every function entry of '
    'the library\'s modules, and in a third of those every line of them (sys.monitoring PY_START / LINE)',
    'pre-emption happens at synchronisation operations, thread start/join, sleeps and (in a '
    'fraction of runs) at function entry inside the concurrent modules of ml_metrics; switches '
    'in the middle of straight-line attribute updates are not explored',
    'sampling: a clean batch is evidence, not proof',
]

# Families whose schedules must not depend on PYTHONHASHSEED (no string-hashed sets).
HASHSEED_INDEPENDENT = ['c04:queue', 'c04:aqueue', 'c05:fail', 'c05:stop', 'c05:timeout', 'c13:par', 'c03:strategy', 'c10:ckpt', 'c12:skip']

CHECKS = {
    'C04': {
        'families': [['c04:queue', 1.0], ['c04:aqueue', 0.4]],
        'runs': {'quick': 30000, 'thorough': 1500000},
        'budget': {'quick': 100, 'thorough': 1500},
        'level': 'exploration',
        'rule': ('each evaluation is one simulated execution: a seeded workload (producers, items, '
                 'return values, consumers and their dequeue modes, capacity, batch sizes) run under '
                 'a seeded schedule; a run is non-trivial if it produced at least one item and had '
                 'more than two context switches; distinct = distinct digests of the full event log'),
        'real': REAL_COMMON,
        'stub': STUB_COMMON,
        'assumptions': ASSUME_COMMON + [
            'get_nowait() is treated as an internal helper (it needs the dequeue lock) and is not '
            'used as a consumer mode',
            'with several producers max_enqueuer is set to the number of producers, as every '
            'in-repo caller does',
            'coroutine consumers that share ONE async dequeue iterator are judged on exactly-once and '
            'termination only: which of them gets which element, and in which order, depends on the order in '
            'which their pending batches complete'],
        'probes': [],
    },
    'C05': {
        'families': [['c05:fail', 1.0], ['c05:afail', 0.5], ['c05:stop', 1.0], ['c05:timeout', 0.5]],
        'runs': {'quick': 30000, 'thorough': 1500000},
        'budget': {'quick': 100, 'thorough': 1500},
        'level': 'fault_enumeration',
        'rule': ('each evaluation is one simulated execution of the real IteratorQueue with one injected '
                 'fault: (fail) producer p raises after i items, (p, i) drawn uniformly over all positions of '
                 'the drawn workload, a consumer that saw the failure may issue a plain stop; (afail) the same on an '
                 'AsyncIteratorQueue fed by coroutines running async_enqueue_from_iterator on one event loop, mixed '
                 'with thread producers; (stop) maybe_stop()/maybe_stop(exc) issued by an extra thread after a '
                 'drawn number of scheduling steps or as soon as a producer is blocked in put / a consumer is '
                 'waiting; (timeout) a peer that stops producing/consuming with timeout configured. '
                 'Non-trivial = the fault actually fired and the run had more than two context switches; '
                 'distinct = distinct event-log digests'),
        'real': REAL_COMMON,
        'stub': STUB_COMMON,
        'assumptions': ASSUME_COMMON + [
            'in two thirds of the stop runs the request is issued only after every producer has registered; '
            'in the rest it may precede a producer\'s registration (the producer must then return at once)',
            'no upper bound on when a timeout fires is asserted (get/put restart their full timeout '
            'after every notification); only that it fires, and not before the configured time'],
        'probes': ['probe:stop_while_producer_blocked', 'probe:stop_while_consumer_blocked',
                   'probe:stop_before_all_producers_registered'],
    },
    'C13': {
        'families': [['c13:par', 1.0]],
        'runs': {'quick': 30000, 'thorough': 1500000},
        'budget': {'quick': 100, 'thorough': 1500},
        'level': 'exploration',
        'rule': ('each evaluation is one simulated execution of one parallel-iteration API (pmap, piter_fn, '
                 'piter, piter_multiplex, MultiplexIterator, iterate_fn(multithread)) with drawn parallelism, '
                 'buffer size, number and length of input iterators, and one of {no fault, early stop after s '
                 'outputs via num_steps or maybe_stop, failure of the mapped function/source at one item}, '
                 'under a seeded schedule. Non-trivial = parallelism > 0, at least one item and more than two '
                 'context switches; distinct = distinct event-log digests. The single input of pmap / piter_fn / '
                 'MultiplexIterator is in a third of those runs the iterator of a queue fed by another thread'),
        'real': REAL_COMMON,
        'stub': STUB_COMMON,
        'assumptions': ASSUME_COMMON + [
            'functions that take the caller\'s pool are given a pool with at least as many workers as tasks '
            'they submit (fewer workers than tasks deadlocks a two-stage piter by construction)',
            'for functions taking the caller\'s pool, "threads released" means pool.shutdown(wait=True) '
            'returns; for MultiplexIterator (owns its pool) it means the pool is shut down and no pool thread is alive'],
        'probes': ['probe:more_sources_than_pool_threads', 'probe:early_stop_with_queued_enqueue_tasks'],
    },
    'C03': {
        'families': [['c03:strategy', 1.0]],
        'runs': {'quick': 16000, 'thorough': 800000},
        'budget': {'quick': 110, 'thorough': 1500},
        'level': 'exploration',
        'rule': ('each evaluation draws a pipeline from the operator grammar (scenarios/pipes.py: assign, apply, '
                 'select, filter, re-batch, sink, 1-2 aggregates incl. an exact integer one, optional slice) and a '
                 'dataset, runs it sequentially as one fused stage (reference) and then under one strategy: '
                 'num_threads 1..4 over a shardable or non-shardable source, a chain of 2-3 named stages (with or '
                 'without threads), k<=5 shards run concurrently with states merged in a schedule-chosen order, or '
                 'the in-process interleaved runner; chains may run their stages with different thread counts and carry '
                 'aggregates on the first stage as well (reference then = the same chain, sequential); shard states '
                 'are merged from a list or a one-shot generator, with or without the strict count; one aggregate in '
                 'the pool is functional (immutable tuple states); the thread schedule is seeded. Non-trivial = more than two '
                 'context switches (or a chained run); distinct = distinct event-log digests'),
        'real': REAL_COMMON + ['asyncio BaseEventLoop core, tasks, run_in_executor, run_coroutine_threadsafe'],
        'stub': STUB_COMMON + ['asyncio selector/self-pipe/clock -> simkit.aioloop.SimEventLoop'],
        'assumptions': ASSUME_COMMON + [
            'for pipelines containing a re-batching operator, under threads/shards/interleaving the unit of '
            'comparison is the row, not the batch (each worker re-batches its own share by construction)',
            'float aggregates are compared with 1e-9 relative tolerance (merge order changes rounding); the '
            'integer aggregate is compared exactly',
            'a batch-level filter is never generated after a re-batching operator'],
        'probes': [],
    },
    'C10': {
        'families': [['c10:ckpt', 1.0]],
        'runs': {'quick': 12000, 'thorough': 600000},
        'budget': {'quick': 110, 'thorough': 1500},
        'level': 'fault_enumeration',
        'rule': ('each evaluation is one simulated execution with 1-3 crash/restore generations: the iterator '
                 'is abandoned after a drawn number of delivered batches (cut positions uniform over 0..n), its '
                 'state is round-tripped through cloudpickle and a freshly built iterator is restored from the '
                 'bytes; over plain / sharded / nested-sharded SequenceDataSource and (sharded) ShardedIterable, at '
                 'the data-source level and for fused or chained pipelines with aggregates and num_threads 0..3 '
                 '(seeded thread schedule decides how far the workers have run ahead at the cut); also multi-file '
                 'sources (from_sequences, shard ends on file boundaries), chains of up to three stages with '
                 'aggregates on the first, periodic checkpointing (the job runs on for 0-3 elements after the capture '
                 'and the captured object is written out at the crash), a second restore from the same loaded state, '
                 'sources that skip unreadable records, and the value carried by the final StopIteration. Non-trivial = at '
                 'least one crash/restore happened; distinct = distinct event-log digests'),
        'real': REAL_COMMON + ['cloudpickle round trip of the captured state (the only thing that survives a crash)'],
        'stub': STUB_COMMON,
        'assumptions': ASSUME_COMMON + [
            'sinks are not generated; a re-batching operator only where its batches are whole multiples of the '
            'one-row source elements and num_threads is 0, i.e. where it holds nothing between two batches (rows '
            'buffered inside a re-batcher are not part of the documented state)',
            'the reference is the uninterrupted sequential run of the same pipeline over the same source'],
        'probes': ['probe:second_generation_restore', 'probe:checkpoint_of_threaded_pipeline', 'probe:nested_shards'],
    },
    'C12': {
        'families': [['c12:skip', 1.0]],
        'runs': {'quick': 24000, 'thorough': 1200000},
        'budget': {'quick': 110, 'thorough': 1500},
        'level': 'fault_enumeration',
        'rule': ('each evaluation injects 1-4 failures at drawn positions into one seam of a pipeline: element and '
                 'slice reads of the data source (this is where _RangeIterator reads ahead and falls back), the '
                 'function of an apply / assign / filter operator, a sink write, or malformed records that fail in the '
                 'input selection of an operator; optionally a well-behaved sink upstream of the failing operator; after '
                 'an error the iterator is asked twice more; error types skippable '
                 '(ValueError, TypeError) and not (KeyError, RuntimeError); skipping on/off (source-level and '
                 'operator-level separately); with and without fn_batch_size/batch_size; num_threads 0..2 under a '
                 'seeded schedule. Reference = the same pipeline without faults, minus the elements whose processing '
                 'fails. Non-trivial = at least one injected error fired; distinct = distinct event-log digests'),
        'real': REAL_COMMON,
        'stub': STUB_COMMON,
        'assumptions': ASSUME_COMMON + [
            'a failing function call drops its whole call batch (fn_batch_size rows) and nothing else',
            'for assign the output batch size equals the incoming batch size (assign merges outputs into its inputs)',
            'a slice read of the source fails iff it covers a failing index'],
        'probes': ['probe:range_iterator_readahead_fallback', 'probe:failure_inside_rebatched_call'],
    },
    'C14': {
        'families': [['c14:remote', 1.0]],
        'runs': {'quick': 7000, 'thorough': 350000},
        'budget': {'quick': 110, 'thorough': 1500},
        'level': 'exploration',
        'rule': ('each evaluation starts a real CourierServer (plus a host server) on the simulated network, and 1-3 '
                 'client threads issue drawn operations through one CourierClient: lazy expression trees of depth <= 3 '
                 '(nested calls, attributes, items, raising functions; cached results), async evaluation, chains on a '
                 'RemoteObject (attr, method, item, call, state mutation, failing method), remote iterators (private and '
                 'shared by all clients) and remote queues; message latencies drawn per message; optionally a '
                 'shutdown (stop(), shutdown RPC, or kill of the node) after a drawn number of scheduling steps; slow '
                 'failing evaluations that a shutdown request can overlap; producers of served queues that pause past '
                 'the call deadline; every step through a client with a deadline is bounded (H + T + 100 s). '
                 'Non-trivial = more than five context switches; distinct = distinct event-log digests'),
        'real': REAL_COMMON + ['asyncio BaseEventLoop core', 'ml_metrics CourierServer/CourierClient/RemoteObject/lazy_fns, cloudpickle'],
        'stub': STUB_COMMON + ['courier.Server/Client -> fakes/courier (in-process transport: by-value arguments, one handler '
                               'thread per request, wait_for_ready, DEADLINE_EXCEEDED = code 4, no cancellation of handlers)',
                               'asyncio selector/self-pipe/clock -> simkit.aioloop.SimEventLoop'],
        'assumptions': ASSUME_COMMON + [
            'the expected value of an expression is its plain-Python meaning (what local evaluation gives)',
            'under a shutdown fault every call may end with the right value or with TimeoutError / RuntimeError '
            '(worker disconnected, failed to connect) / the deadline status error; anything else is a violation',
            'all simulated nodes share one interpreter (process-global registries and caches are shared), as in the upstream tests',
            'the fake transport is my reading of courier/gRPC semantics; it is validated against the upstream test-suite, '
            'not against the real library'],
        'probes': ['probe:deadline_exceeded_under_shutdown'],
    },
    'C15': {
        'families': [['c15:prefetch', 1.0]],
        'runs': {'quick': 16000, 'thorough': 800000},
        'budget': {'quick': 110, 'thorough': 1500},
        'level': 'exploration',
        'rule': ('each evaluation starts a real PrefetchedCourierServer on the simulated network and drives the '
                 'generator protocol (init_generator, next_batch_from_generator) either request by request or through '
                 'the real client loop async_iterate, with drawn prefetch size 1..4, batch size 0 (as many as there are) '
                 'or 1..5, generator length '
                 '0..9, return value, failure position, ignore_error, message latencies, and one scenario of {plain, '
                 'failure, sequential re-init after k batches, re-init concurrent with an in-flight request, shutdown at '
                 'a drawn step, 2-3 concurrent initialisations over an optional earlier generator}. Non-trivial = more '
                 'than five context switches; distinct = distinct event-log digests'),
        'real': REAL_COMMON + ['ml_metrics PrefetchedCourierServer, CourierClient.async_iterate, IteratorQueue, lazy_fns'],
        'stub': STUB_COMMON + ['courier.Server/Client -> fakes/courier', 'asyncio selector/self-pipe/clock -> SimEventLoop'],
        'assumptions': ASSUME_COMMON + [
            'a request that is in flight while the generator is replaced may be served from the new generator (the '
            'protocol carries no generator id, and message reordering makes it indistinguishable from a later request); '
            'what is checked is that no batch holds elements of two generators, no old element follows a new one, and '
            'the elements taken by both clients together are exactly the new generator\'s elements',
            'empty batches are tolerated (the client loop just asks again)'],
        'probes': ['probe:reinit_with_request_in_flight'],
    },
    'C16': {
        'families': [['c16:dist', 1.0]],
        'runs': {'quick': 8000, 'thorough': 400000},
        'budget': {'quick': 110, 'thorough': 1500},
        'level': 'exploration',
        'rule': ('each evaluation draws a pipeline from the operator grammar and a dataset, runs it in process '
                 '(reference) and then over 1-3 real PrefetchedCourierServer workers plus a host server on the '
                 'simulated network: sharded_pipelines_as_iterator with 1-5 shards (result through the result '
                 'queue and the compute_result thread) or run_pipeline_interleaved with a worker pool, a master '
                 'server and remote queues; iterate batch size (0 = all available, 1-4), prefetch size, buffer size, '
                 'max_parallelism 1-3, aggregates on two named stages, a functional aggregate, and message latencies '
                 'drawn; a third mode checks the strict state count of merge_states on both runner classes. '
                 'Non-trivial = more than ten context switches (or the strict-count mode); distinct = digests'),
        'real': REAL_COMMON + ['asyncio core', 'ml_metrics orchestrate/courier_worker/courier_server/courier_utils'],
        'stub': STUB_COMMON + ['courier.Server/Client -> fakes/courier (in-process transport: by-value arguments, one handler thread per request, wait_for_ready, DEADLINE_EXCEEDED = code 4, no cancellation of handlers; fault policy per call; node kill = partition for ever)', 'asyncio selector/self-pipe/clock -> simkit.aioloop.SimEventLoop'],
        'assumptions': ASSUME_COMMON + [
            'no call deadline is configured in the fault-free runs (call_timeout=0), so that slow simulated '
            'schedules cannot turn into spurious retries',
            'rows are the unit of comparison for pipelines with a re-batching operator',
            'all simulated nodes share one interpreter (registry, caches), as in the upstream tests'],
        'probes': [],
    },
    'C06': {
        'families': [['c06:tasks', 1.0], ['c06:shards', 1.0]],
        'runs': {'quick': 8000, 'thorough': 600000},
        'budget': {'quick': 115, 'thorough': 1500},
        'level': 'fault_enumeration',
        'rule': ('each evaluation runs as_completed (1-6 tasks) or sharded_pipelines_as_iterator (1-6 shards, exact '
                 'integer aggregate) over 1-4 real workers with a fault plan of 0-3 faults placed by (worker, method, '
                 'n-th call): request dropped, reply dropped, reply delayed past the deadline, slow handler, death on '
                 'arrival, death after the work, death + restart after a delay; optionally an application error in '
                 'one task/shard and a clock jump; a consumer that takes 1-6 s per batch or closes the generator early; '
                 'call timeout, heartbeat threshold and retry threshold drawn. The '
                 'outcome is judged by the clause its fired faults allow (scenarios/c06.py: classify). Non-trivial = '
                 'at least one fault fired; distinct = distinct event-log digests'),
        'real': REAL_COMMON + ['asyncio core', 'ml_metrics orchestrate/courier_worker/courier_server/courier_utils'],
        'stub': STUB_COMMON + ['courier.Server/Client -> fakes/courier (in-process transport: by-value arguments, one handler thread per request, wait_for_ready, DEADLINE_EXCEEDED = code 4, no cancellation of handlers; fault policy per call; node kill = partition for ever)', 'asyncio selector/self-pipe/clock -> simkit.aioloop.SimEventLoop'],
        'assumptions': ASSUME_COMMON + [
            'success (every result exactly once / aggregate equal to the in-process run / every batch at least once) is '
            'demanded only when a worker is usable at the end (every kill of it was followed by a restart), no clock '
            'jump was injected, and the retry threshold is either practically infinite or no worker died and the number '
            'of timeout-inducing faults does not exceed it; otherwise any error is accepted but a silently wrong result '
            'is still a violation',
            'retry-budget accounting: when the run ends with "Too many Timeouts: N > T", N may not exceed the '
            'submitted generator tasks that can have timed out according to the call log (a call without an answer '
            'in time or with an error status, an answer whose bytes mention TimeoutError, a clock jump, or a gap of '
            'more than half the heartbeat threshold without a successfully answered call sent to that worker)',
            'a dead worker is a node partitioned for ever (its threads keep running but nothing they send arrives)',
            'bounded liveness: with a usable worker the driver must return within 1500 simulated seconds after the '
            'last fault or restart'],
        'probes': ['probe:retry_after_deadline', 'probe:worker_death', 'probe:worker_restarted',
                   'probe:work_done_but_reply_late'],
    },
    'C20': {
        'families': [['c20:registry', 1.0], ['c20:ownership', 1.0], ['c20:poolops', 0.5], ['c20:distrelease', 0.35]],
        'runs': {'quick': 24000, 'thorough': 1200000},
        'budget': {'quick': 110, 'thorough': 1500},
        'level': 'exploration',
        'rule': ('registry: 2-4 threads issue register / refresh (fresh, stale, far-future) / unregister / heartbeat '
                 'handler calls / is_alive / clock jumps against the real WorkerRegistry with step invariants evaluated '
                 'at every scheduling point (heartbeat never decreases, a dead worker only comes back through a '
                 'register); ownership: 2-3 pools (one of them sometimes driven by two threads) acquire and release 1-3 '
                 'shared Worker objects through acquire_by, _acquire_all, next_idle_worker, release_all; poolops: '
                 'WorkerPool.run / call_and_wait / as_completed (consumed to the end or closed after k of n results) against '
                 'real servers with tasks that return or raise, in 60% of the runs '
                 'while workers leave (graceful goodbye, partition, restart, lost reply at the n-th call or at an '
                 'arbitrary scheduling step; call_timeout 5 or 200 s, never 0 = wait for ever by design); distrelease: the '
                 'fault-free sharded / interleaved drivers of C16, judged only on workers being released. 60% of the '
                 'registry/ownership runs use function-entry pre-emption. Non-trivial = more than two context '
                 'switches; distinct = distinct event-log digests'),
        'real': REAL_COMMON + ['ml_metrics WorkerRegistry, CourierClient.is_alive, Worker, WorkerPool, CourierServer._heartbeat'],
        'stub': STUB_COMMON + ['courier.Server/Client -> fakes/courier (in-process transport: by-value arguments, one handler thread per request, wait_for_ready, DEADLINE_EXCEEDED = code 4, no cancellation of handlers; fault policy per call; node kill = partition for ever)', 'asyncio selector/self-pipe/clock -> simkit.aioloop.SimEventLoop'],
        'assumptions': ASSUME_COMMON + [
            'ownership beliefs of a pool driven by two threads are not used as an oracle (its threads may release each other\'s workers)',
            'a heartbeat REQUEST with is_alive=True from the worker itself is a registration (the protocol has no incarnation number): it legitimately revives an unregistered worker, also when it was sent before the goodbye and delivered after it; "late or stale heartbeat" is judged on the refresh path only (results of the client-side pings)',
            'liveness is checked as: with the recorded heartbeat unchanged during the call, is_alive equals (t - h < '
            'threshold) for the call\'s start or end instant'],
        'probes': [],
    },
}
