"""Parent process of a check: fan out workers, triage violations, write evidence.

  check <PROPERTY> [--tier quick|thorough] [--runs N] [--workers N]
                   [--seed N] [--replay FILE] [--budget SECONDS]

Exit 0: property held on everything explored (known findings are printed as
KNOWN-FINDING lines).  Exit 1: at least one confirmed, replayable violation
that is not a listed known finding (one VIOLATION line each).  Exit 2:
HARNESS-ERROR (budget exhausted without verdict, worker crash/hang,
non-reproducible violation): never a pass.
"""

from __future__ import annotations

import argparse
import collections
import json
import os
import re
import shutil
import subprocess
import sys
import time

VERIF = os.path.dirname(os.path.dirname(os.path.abspath(__file__)))
if VERIF not in sys.path:
  sys.path.insert(0, VERIF)

from simkit import registry  # pylint: disable=g-import-not-at-top

PY = os.environ.get('VERIF_PYTHON', '/venv/bin/python')
KNOWN = os.path.join(VERIF, 'known_findings.json')
DEFAULT_SEED = {'quick': 20261001, 'thorough': 20261002}


def child_env():
  env = dict(os.environ)
  env['PYTHONHASHSEED'] = '0'
  env['PYTHONPATH'] = VERIF
  env['PYTHONDONTWRITEBYTECODE'] = '1'
  env.pop('PYTHONSTARTUP', None)
  return env


def load_known(prop):
  try:
    data = json.load(open(KNOWN))
  except FileNotFoundError:
    return []
  return [f for f in data.get('open', []) if f['property'] == prop]


def slug(s):
  return re.sub(r'[^A-Za-z0-9_.-]+', '_', s)[:80]


def run_tool(args, timeout, cpu=0):
  env = child_env()
  env['VERIF_CPU'] = str(cpu)
  p = subprocess.run([PY] + args, env=env, capture_output=True, text=True,
                     timeout=timeout, cwd=VERIF, check=False)
  return p


def confirm(path, cpu=0):
  """Replays a record in a fresh process. Returns the verdict dict or None."""
  try:
    p = run_tool([os.path.join(VERIF, 'simkit', 'replay.py'), 'run', path],
                 timeout=600, cpu=cpu)
  except subprocess.TimeoutExpired:
    return None
  for line in p.stdout.splitlines():
    if line.startswith('REPLAY-VERDICT '):
      return json.loads(line[len('REPLAY-VERDICT '):])
  sys.stderr.write(p.stdout[-2000:] + p.stderr[-4000:])
  return None


def do_replay(prop, path):
  rec = json.load(open(path))
  if rec.get('property', prop) != prop:
    print(f'HARNESS-ERROR replay file is for property {rec.get("property")}')
    return 2
  verdict = confirm(path)
  if verdict is None:
    print('HARNESS-ERROR replay process failed')
    return 2
  print(json.dumps(verdict, indent=1))
  if verdict['reproduced']:
    vi = verdict['violations'][0]
    print(f"violation: {vi['sig']}: {vi['msg'][:800]}")
    print(f'VIOLATION property={prop} replay={path}')
    return 1
  print(f'NOT-REPRODUCED property={prop} replay={path} '
        f'(the recorded violation does not occur on the current tree)')
  return 0


def readable(rec):
  """A human-readable rendering of a (minimised) replay record."""
  lines = [
      f"property {rec['property']} family {rec['family']} seed {rec['seed']}",
      f"violation {rec['violation']['sig']}",
      f"  {rec['violation']['msg'][:1000]}",
      f"cfg {json.dumps(rec['cfg'])}",
      f"decisions ({len(rec['decisions'])}, non-zero = forced switch/choice): "
      f"{rec['decisions'][:400]}",
  ]
  names = rec.get('thread_names', {})
  if names:
    lines.append('threads: ' + ', '.join(f'T{k}={v}' for k, v in names.items()))
  if rec.get('blocked_at_end'):
    lines.append('threads still alive at the end (state, why, innermost frames):')
    for t in rec['blocked_at_end']:
      lines.append(f"  T{t.get('tid')} {t.get('name')}: {t.get('state')} "
                   f"[{t.get('why')}] {' < '.join(t.get('stack', [])[:4])}")
  lines.append('trace tail, consecutive steps of one thread folded '
               '(run Tn xk = k scheduling steps; b=block, w=wake, timer, spawn, done):')
  folded, last, cnt = [], None, 0
  for e in rec.get('tail', [])[-160:]:
    if e[0] == 'r':
      if last == e[1]:
        cnt += 1
        continue
      if last is not None:
        folded.append(f'run T{last}({names.get(last, "?")}) x{cnt}')
      last, cnt = e[1], 1
    else:
      if last is not None:
        folded.append(f'run T{last}({names.get(last, "?")}) x{cnt}')
        last, cnt = None, 0
      tid = e[1] if len(e) > 1 else ''
      folded.append(f"{e[0]} T{tid}({names.get(tid, '?')}) {' '.join(e[2:])}")
  if last is not None:
    folded.append(f'run T{last}({names.get(last, "?")}) x{cnt}')
  lines += ['  ' + x for x in folded[-70:]]
  return '\n'.join(lines) + '\n'


def main(argv=None):
  ap = argparse.ArgumentParser()
  ap.add_argument('prop')
  ap.add_argument('--tier', default=os.environ.get('VERIF_TIER') or 'quick')
  ap.add_argument('--runs', type=int, default=0)
  ap.add_argument('--workers', type=int, default=0)
  ap.add_argument('--seed', type=int, default=None)
  ap.add_argument('--replay', default=None)
  ap.add_argument('--budget', type=float, default=0.0)
  ap.add_argument('--families', default='')
  ap.add_argument('--no-evidence', action='store_true')
  ap.add_argument('--no-shrink', action='store_true')
  args = ap.parse_args(argv)
  prop = args.prop.upper()
  if prop == 'SELFTEST':
    return subprocess.call(
        [PY, os.path.join(VERIF, 'simkit', 'selftest.py'), '--determinism'],
        env=child_env())
  if prop not in registry.CHECKS:
    print(f'HARNESS-ERROR unknown property {prop}')
    return 2
  if args.replay:
    return do_replay(prop, args.replay)
  tier = args.tier if args.tier in ('quick', 'thorough') else 'quick'
  spec = registry.CHECKS[prop]
  seed = args.seed
  if seed is None:
    env_seed = os.environ.get('VERIF_SEED')
    seed = int(env_seed) if env_seed not in (None, '') else DEFAULT_SEED[tier]
  runs = args.runs or spec['runs'][tier]
  budget = args.budget or spec['budget'][tier]
  ncpu = len(os.sched_getaffinity(0))
  workers = args.workers or max(1, min(16, ncpu))
  families = spec['families']
  if args.families:
    keep = set(args.families.split(','))
    families = [f for f in families if f[0] in keep or f[0].split(':')[1] in keep]
  t0 = time.time()
  print(f'check {prop} tier={tier} VERIF_SEED={seed} runs={runs} '
        f'workers={workers} budget={budget:.0f}s families='
        f"{','.join(f for f, _ in families)}", flush=True)
  work = os.path.join(VERIF, '.work', f'{prop}-{tier}-{os.getpid()}')
  os.makedirs(work, exist_ok=True)
  cpus = sorted(os.sched_getaffinity(0))
  procs = []
  for w in range(workers):
    job = {'prop': prop, 'families': families, 'seed': seed, 'start': w,
           'stride': workers, 'count': runs, 'tier': tier,
           'cpu': cpus[w % len(cpus)], 'deadline_s': budget}
    jp = os.path.join(work, f'job{w}.json')
    op = os.path.join(work, f'out{w}.jsonl')
    json.dump(job, open(jp, 'w'))
    ep = open(os.path.join(work, f'err{w}.txt'), 'w')
    p = subprocess.Popen(
        [PY, os.path.join(VERIF, 'simkit', 'worker.py'), jp, op],
        env=child_env(), stdout=ep, stderr=ep, cwd=VERIF)
    procs.append((p, op, ep))
  hard_deadline = time.time() + budget + 420
  harness_errors = []
  for w, (p, op, ep) in enumerate(procs):
    try:
      rc = p.wait(timeout=max(1, hard_deadline - time.time()))
    except subprocess.TimeoutExpired:
      p.kill()
      rc = -9
    ep.close()
    if rc != 0:
      full = open(ep.name).read()
      head = next((l for l in full.splitlines()
                   if l.startswith('HARNESS-ERROR')), '')
      err = full[-3000:]
      harness_errors.append(f'worker {w} exit {rc}: {head} ... {err}')
  # ---- aggregate -----------------------------------------------------------
  total = collections.Counter()
  fam_stats = {}
  digests = set()
  sig_counts = collections.Counter()
  viols = collections.OrderedDict()   # sig -> first record (lowest index)
  stopped_early = False
  for w, (p, op, ep) in enumerate(procs):
    done = False
    try:
      lines = open(op).read().splitlines()
    except FileNotFoundError:
      lines = []
    for line in lines:
      try:
        rec = json.loads(line)
      except ValueError:
        continue
      if rec['t'] == 'violation':
        sig = rec['violation']['sig']
        if sig not in viols or rec['index'] < viols[sig]['index']:
          viols[sig] = rec
      elif rec['t'] == 'error':
        harness_errors.append(f'worker {w}: {rec["msg"][-2000:]}')
      elif rec['t'] == 'done':
        done = True
        stopped_early |= rec['stopped_early']
        digests.update(rec['digests'])
        sig_counts.update(rec['sig_counts'])
        for fam, s in rec['stats'].items():
          agg = fam_stats.setdefault(fam, {
              'runs': 0, 'steps': 0, 'switches': 0, 'sim_s': 0.0,
              'nontrivial': 0, 'fine_runs': 0, 'completed': 0,
              'violating_runs': 0, 'decisions': 0, 'wall': 0.0, 'threads': 0,
              'max_steps': 0,
              'counters': collections.Counter(),
              'probes': collections.Counter(), 'samples': []})
          for k in ('runs', 'steps', 'switches', 'sim_s', 'nontrivial',
                    'fine_runs', 'completed', 'violating_runs', 'decisions',
                    'wall', 'threads'):
            agg[k] += s[k]
          agg['max_steps'] = max(agg['max_steps'], s['max_steps'])
          agg['counters'].update(s['counters'])
          agg['probes'].update(s['probes'])
          if len(agg['samples']) < 3:
            agg['samples'].extend(s['samples'][:1])
    if not done and not any(f'worker {w}' in e for e in harness_errors):
      harness_errors.append(f'worker {w} produced no summary')
  n_runs = sum(s['runs'] for s in fam_stats.values())
  wall = time.time() - t0
  n_cut = sum(s['counters'].get('harness:aborted_wall', 0)
              for s in fam_stats.values())
  if n_cut > max(10, n_runs // 200):
    harness_errors.append(
        f'{n_cut} of {n_runs} runs were cut by the real-time limit per run '
        '(machine overloaded?): too many to call the batch conclusive')
  # ---- triage ----------------------------------------------------------------
  known = load_known(prop)
  known_sigs = {f['sig']: f for f in known}
  exit_code = 0
  new_violations = []
  os.makedirs(os.path.join(VERIF, 'replays'), exist_ok=True)
  handled = 0
  for sig, rec in viols.items():
    if rec['violation'].get('harness'):
      harness_errors.append(f'{sig}: {rec["violation"]["msg"][-1500:]}')
      continue
    if sig in known_sigs:
      continue
    rec = dict(rec, property=prop)
    rec.pop('t', None)
    base = os.path.join(VERIF, 'replays',
                        f'{prop}-{slug(sig)}-{rec["seed"]}')
    raw = base + '.raw.json'
    json.dump(rec, open(raw, 'w'))
    verdict = confirm(raw, cpu=cpus[0])
    if verdict is None or not verdict['reproduced']:
      harness_errors.append(
          f'violation {sig} (seed {rec["seed"]}) did not replay: {verdict}')
      continue
    if not verdict['digest_matches']:
      print(f'NOTE: {sig} (seed {rec["seed"]}) replays with the same violation '
            'but a different event-log digest (a determinism leak in the harness)')
    final = base + '.json'
    if not args.no_shrink and handled < 4:
      try:
        run_tool([os.path.join(VERIF, 'simkit', 'replay.py'), 'shrink', raw,
                  final, str(spec.get('shrink_budget', 25))], timeout=900,
                 cpu=cpus[0])
      except subprocess.TimeoutExpired:
        pass
    if not os.path.exists(final):
      shutil.copy(raw, final)
    else:
      v2 = confirm(final, cpu=cpus[0])
      if v2 is None or not v2['reproduced']:
        shutil.copy(raw, final)
    handled += 1
    try:
      open(base + '.txt', 'w').write(readable(json.load(open(final))))
    except Exception:  # pylint: disable=broad-exception-caught
      pass
    os.remove(raw)
    new_violations.append((sig, final, rec))
  for f in known:
    n = sig_counts.get(f['sig'], 0)
    print(f"KNOWN-FINDING: property={prop} {f['what_fails']} "
          f"[{f['sig']}; seen in {n} of {n_runs} runs of this batch]")
  for sig, path, rec in new_violations:
    print(f'violation: {sig} in {sig_counts[sig]} of {n_runs} runs; first at '
          f"run index {rec['index']} seed {rec['seed']}: "
          f"{rec['violation']['msg'][:600]}")
    print(f'VIOLATION property={prop} replay={path}')
    exit_code = 1
  if harness_errors:
    for e in harness_errors[:10]:
      print('HARNESS-ERROR ' + e.replace('\n', '\n    '))
    if exit_code == 0:
      exit_code = 2
  if n_runs == 0 and exit_code == 0:
    print('HARNESS-ERROR no run was executed')
    exit_code = 2
  # ---- evidence --------------------------------------------------------------
  steps = sum(s['steps'] for s in fam_stats.values())
  sim_s = sum(s['sim_s'] for s in fam_stats.values())
  counters = collections.Counter()
  probes = collections.Counter()
  for s in fam_stats.values():
    counters.update(s['counters'])
    probes.update(s['probes'])
  samples = []
  for fam, s in fam_stats.items():
    for smp in s['samples'][:2]:
      samples.append(dict(smp, family=fam))
  evidence = {
      'property_id': prop,
      'tier': tier,
      'seed': seed,
      'level': spec['level'],
      'coverage': {
          'evaluations': n_runs,
          'distinct_nontrivial': len(digests),
          'rule': spec['rule'],
          'samples': samples or [{'note': 'no completed run to sample'}],
          'runs_requested': runs,
          'stopped_early_by_wall_budget': stopped_early,
          'runs_cut_by_real_time_limit_and_not_judged': n_cut,
          'scheduling_steps': steps,
          'context_switches': sum(s['switches'] for s in fam_stats.values()),
          'scheduling_decisions': sum(s['decisions'] for s in fam_stats.values()),
          'simulated_seconds': round(sim_s, 3),
          'runs_per_hour': round(n_runs / max(wall, 1e-9) * 3600),
          'workers': workers,
          'per_family': {
              fam: {
                  'runs': s['runs'], 'steps': s['steps'],
                  'max_steps_in_one_run': s['max_steps'],
                  'simulated_seconds': round(s['sim_s'], 3),
                  'distinct_nontrivial_runs': s['nontrivial'],
                  'runs_with_function_entry_preemption': s['fine_runs'],
                  'runs_completing_workload': s['completed'],
                  'violating_runs': s['violating_runs'],
                  'threads_simulated': s['threads'],
                  'cpu_seconds': round(s['wall'], 2),
              } for fam, s in fam_stats.items()},
          'faults_and_events_fired': dict(counters),
          'reach_probes': {p: probes.get(p, 0) for p in spec.get('probes', [])}
                          | dict(probes),
          'violation_signatures': dict(sig_counts),
          'known_findings_listed': [f['sig'] for f in known],
          'components_real': spec['real'],
          'components_stub': spec['stub'],
      },
      'assumptions': spec['assumptions'],
      'wall_s': round(wall, 2),
      'violations': len(new_violations),
  }
  if not args.no_evidence:
    os.makedirs(os.path.join(VERIF, 'evidence'), exist_ok=True)
    json.dump(evidence, open(os.path.join(VERIF, 'evidence', f'{prop}.json'),
                             'w'), indent=1, sort_keys=True)
  shutil.rmtree(work, ignore_errors=True)
  print(f'{prop}: {n_runs} runs, {len(digests)} distinct non-trivial schedules, '
        f'{steps} steps, {sim_s:.1f} simulated s, {wall:.1f}s wall, '
        f'{len(new_violations)} new violation(s), '
        f'{sum(1 for f in known if sig_counts.get(f["sig"]))} known finding(s) seen, '
        f'exit {exit_code}')
  return exit_code


if __name__ == '__main__':
  sys.exit(main())
