"""Per-process set-up and the run-one-simulation entry point.

A *family* is a scenario generator + driver + oracle (see scenarios/).  One run:
seed -> cfg (explicit JSON) -> Sim(chooser) -> driver as thread T0 -> oracle.
On replay the cfg comes from the file and the chooser is the recorded decision
list; nothing is re-derived from a PRNG.
"""

from __future__ import annotations

import gc
import hashlib
import importlib
import json
import os
import random
import sys
import time as _time

VERIF = os.path.dirname(os.path.dirname(os.path.abspath(__file__)))
REPO = os.environ.get('VERIF_REPO', '/repo')

_real_perf = _time.perf_counter

_ready = False
FINE_MODULES = (
    'ml_metrics/_src/utils/iter_utils.py',
    'ml_metrics/_src/utils/courier_utils.py',
    'ml_metrics/_src/chainables/courier_worker.py',
    'ml_metrics/_src/chainables/courier_server.py',
    'ml_metrics/_src/chainables/orchestrate.py',
    'ml_metrics/_src/chainables/transform.py',
    'ml_metrics/_src/chainables/lazy_fns.py',
    'ml_metrics/_src/chainables/io.py',
    'ml_metrics/_src/chainables/tree_fns.py',
    'ml_metrics/_src/utils/func_utils.py',
)


def setup():
  """Installs every seam, then imports the system under test from REPO."""
  global _ready
  if _ready:
    return
  _ready = True
  if VERIF not in sys.path:
    sys.path.insert(0, VERIF)
  # logging first: its module-level locks must stay real (uncontended because
  # only the baton holder ever runs) and it must be silent.
  import logging as pylog
  pylog.disable(pylog.CRITICAL)
  from absl import logging as absl_logging
  absl_logging.set_verbosity(absl_logging.FATAL)
  absl_logging.set_stderrthreshold('fatal')
  import numpy  # noqa: F401  pylint: disable=unused-import
  import concurrent.futures  # noqa: F401
  import concurrent.futures.thread  # noqa: F401
  import asyncio  # noqa: F401
  from simkit import sched, aioloop
  sched.install()
  aioloop.install()
  sys.path.insert(0, os.path.join(VERIF, 'fakes'))
  sys.path.insert(0, REPO)
  for m in list(sys.modules):
    if m == 'courier' or m.startswith('courier.'):
      del sys.modules[m]
  import courier  # the fake
  assert courier.__file__.startswith(VERIF), courier.__file__
  import ml_metrics
  got = os.path.realpath(os.path.dirname(os.path.dirname(ml_metrics.__file__)))
  assert got == os.path.realpath(REPO), (got, REPO)
  from ml_metrics._src.utils import iter_utils, courier_utils, func_utils  # noqa: F401
  from ml_metrics._src.chainables import (  # noqa: F401
      courier_server, courier_worker, orchestrate, lazy_fns, transform)
  sched.setup_fine(os.path.join(os.path.realpath(REPO), m) for m in FINE_MODULES)
  sched.setup_fine(os.path.join(REPO, m) for m in FINE_MODULES)


def reset_globals():
  """Everything process-global that a run may have touched."""
  from simkit import sched, aioloop
  import courier
  from ml_metrics._src.utils import courier_utils, func_utils
  from ml_metrics._src.chainables import courier_server, lazy_fns
  import concurrent.futures.thread as cft
  from concurrent import futures
  gc.enable()
  gc.collect()
  sched.reset_run_state()
  aioloop.reset()
  courier.NET.reset()
  courier_utils._worker_registry.data.clear()
  courier_utils._worker_registry._lock = sched.SimLock()
  func_utils.SingletonMeta._instances.clear()
  courier_server._CourierServerSingleton._instances.clear()
  lazy_fns.clear_cache()
  lazy_fns.clear_object()
  cft._threads_queues.clear()
  cft._global_shutdown_lock = sched.SimLock()
  cft._shutdown = False
  courier_server._THREAD_POOL = futures.ThreadPoolExecutor()


def run_seed(name, *parts):
  h = hashlib.blake2b(digest_size=8)
  h.update(repr((name,) + parts).encode())
  return int.from_bytes(h.digest(), 'big')


def load_family(spec):
  """'c04:queue' -> family object."""
  setup()   # scenario modules import the (fake) courier at import time
  mod, fam = spec.split(':')
  m = importlib.import_module(f'scenarios.{mod}')
  return m.FAMILIES[fam]


def jsonable(x):
  try:
    json.dumps(x)
    return x
  except (TypeError, ValueError):
    return repr(x)


# Real seconds one run may take in a batch worker (None: unlimited).  A run
# cut by it is counted (counter harness:aborted_wall) and judged by nobody.
WALL_LIMIT = None


def execute(family, cfg, chooser, *, max_steps=None, real_timeout=120.0):
  """Runs one simulation of `family` with explicit cfg and chooser."""
  from simkit import sched
  setup()
  reset_globals()
  simcfg = cfg.get('sim', {})
  s = sched.Sim(
      chooser,
      # (line-level pre-emption multiplies the steps of busy-polling code)
      max_steps=max_steps or max(simcfg.get('max_steps', 0),
                                 getattr(family, 'max_steps', 300_000)) * (
                                     6 if simcfg.get('fine') == 'line' else 1),
      # with function-entry pre-emption one operation costs many more steps
      spin_k=simcfg.get('spin_k', 300) * (
          40 if simcfg.get('fine') == 'line' else 12 if simcfg.get('fine') else 1),
      # the hard limit (the process exits) must come after the soft one
      real_timeout=max(real_timeout, 1.8 * WALL_LIMIT) if WALL_LIMIT else real_timeout,
  )
  # False, True (pre-emption at function entries of the library's modules) or
  # 'line' (at every line of them)
  fine = simcfg.get('fine') or False
  s.fine = fine
  s.wall_limit = WALL_LIMIT
  # the digest identifies (configuration, schedule), not the schedule alone
  s.log('cfg', hashlib.blake2b(
      json.dumps(cfg, sort_keys=True, default=repr).encode(),
      digest_size=8).hexdigest())
  random.seed(cfg.get('pyseed', 0))
  _install_uuid(cfg.get('pyseed', 0))
  from ml_metrics._src.chainables import lazy_fns
  lazy_fns._increment_id = lazy_fns.IncrementId(id_len=8)
  sched.set_fine(fine)
  t0 = _real_perf()
  try:
    out = s.run(lambda: family.drive(cfg, s))
  finally:
    sched.set_fine(False)
  out['wall'] = _real_perf() - t0
  out['fine_yields'] = s.fine_yields
  violations = []
  failure = out.get('failure')
  if failure is not None and failure.kind == 'wall':
    out['counters']['harness:aborted_wall'] = 1
    out['violations'] = []
    return out
  try:
    violations = family.check(cfg, out) or []
  except Exception as e:  # pylint: disable=broad-exception-caught
    import traceback
    violations = [{
        'clause': 'harness', 'sig': f'oracle-crash:{type(e).__name__}',
        'msg': traceback.format_exc()[-1500:], 'harness': True}]
  if failure is not None and failure.kind == 'budget' and not violations:
    violations = [{'clause': 'harness', 'sig': 'step-budget',
                   'msg': str(failure) + ' ' + json.dumps(failure.detail)[:1500],
                   'harness': True}]
  out['violations'] = violations
  return out


_uuid_rng = random.Random(0)


def _install_uuid(seed):
  import uuid
  _uuid_rng.seed(seed)

  def uuid4():
    return uuid.UUID(int=_uuid_rng.getrandbits(128), version=4)

  uuid.uuid4 = uuid4


def run_random(family, seed, tier='quick'):
  """seed -> cfg -> random schedule.  Returns (cfg, outcome)."""
  from simkit import sched
  setup()
  rng = random.Random(seed)
  cfg = family.gen(rng, tier)
  cfg.setdefault('pyseed', rng.randrange(1 << 30))
  stay = cfg.get('sim', {}).get('stay', 0.0)
  sched_seed = rng.randrange(1 << 62)
  # a third of the fine-grained runs pre-empt at every line, not only at
  # function entries (drawn last: every other draw stays as it was)
  if cfg.get('sim', {}).get('fine') is True and rng.random() < 0.33:
    cfg['sim']['fine'] = 'line'
  # a quarter of the runs are scheduled by priorities with 1-3 change points
  # (PCT) instead of a uniform choice at every step
  # (a family may have chosen already)
  pct_draw = (rng.random() < 0.25, rng.choice([1, 2, 2, 3]))
  # Families whose oracles assume a fair scheduler in simulated time opt out:
  # a thread kept waiting by priorities while others poll lets the simulated
  # clock run on, which is a stalled node - a fault, not a schedule.
  if 'pct' not in cfg.setdefault('sim', {}) and pct_draw[0] and getattr(
      family, 'pct_ok', True):
    cfg['sim']['pct'] = pct_draw[1]
  return cfg, execute(family, cfg, _chooser(cfg, sched_seed))


def _chooser(cfg, sched_seed):
  from simkit import sched
  simcfg = cfg.get('sim', {})
  if simcfg.get('pct'):
    return sched.PctChooser(sched_seed, depth=simcfg['pct'])
  return sched.RandomChooser(sched_seed, simcfg.get('stay', 0.0))


def run_cfg(family, cfg, sched_seed):
  """Explicit cfg, random schedule from sched_seed (used by the shrinker)."""
  return execute(family, cfg, _chooser(cfg, sched_seed))


def run_replay(family, cfg, decisions):
  from simkit import sched
  ch = sched.ScriptedChooser(decisions)
  out = execute(family, cfg, ch)
  out['diverged'] = ch.diverged
  return out
