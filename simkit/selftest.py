"""Setup-time self-test: the seams install, ml_metrics imports from /repo,
and a few seeds replay bit-identically (same process, twice)."""
import os
import sys

VERIF = os.path.dirname(os.path.dirname(os.path.abspath(__file__)))
sys.path.insert(0, VERIF)


def main():
  if os.environ.get('PYTHONHASHSEED') != '0':
    os.environ['PYTHONHASHSEED'] = '0'
    os.execv(sys.executable, [sys.executable] + sys.argv)
  from simkit import harness
  harness.setup()
  fam = harness.load_family('c04:queue')
  for i in range(20):
    seed = harness.run_seed('selftest', i)
    _, a = harness.run_random(fam, seed)
    _, b = harness.run_random(fam, seed)
    assert a['digest'] == b['digest'], ('non-deterministic', i)
  print('selftest ok: seams installed, ml_metrics imported from',
        harness.REPO, '- 20 seeds deterministic')
  sys.stdout.flush()
  os._exit(0)


if __name__ == '__main__':
  main()
