"""Self-tests of the machinery itself.

  selftest.py --setup          quick sanity check used by MANIFEST.setup_cmd
  selftest.py --determinism [N] [family ...]
      For every registered family, N run indices are executed (a) each as the
      first run of a fresh interpreter, (b) all in one interpreter in order,
      (c) all in one interpreter in reverse order and, for the families that do
      not iterate string-hashed sets, (d) under another PYTHONHASHSEED; the
      event-log digests must be identical.
"""

import json
import os
import subprocess
import sys
from concurrent import futures

VERIF = os.path.dirname(os.path.dirname(os.path.abspath(__file__)))
sys.path.insert(0, VERIF)
PY = os.environ.get('VERIF_PYTHON', '/venv/bin/python')


def setup_check():
  if os.environ.get('PYTHONHASHSEED') != '0':
    os.environ['PYTHONHASHSEED'] = '0'
    os.execv(sys.executable, [sys.executable] + sys.argv)
  from simkit import harness
  harness.setup()
  fam = harness.load_family('c04:queue')
  for i in range(20):
    seed = harness.run_seed('selftest', i)
    _, a = harness.run_random(fam, seed)
    _, b = harness.run_random(fam, seed)
    assert a['digest'] == b['digest'], ('non-deterministic', i)
  print('selftest ok: seams installed, ml_metrics imported from',
        harness.REPO, '- 20 seeds deterministic')
  sys.stdout.flush()
  os._exit(0)


def child(spec, base, indices):
  from simkit import harness
  harness.setup()
  fam = harness.load_family(spec)
  out = {}
  for k in indices:
    _, res = harness.run_random(
        fam, harness.run_seed(fam.prop, spec, base, k))
    out[k] = res['digest']
  print('DIGESTS ' + json.dumps(out))
  sys.stdout.flush()
  os._exit(0)


def run_child(spec, base, indices, hashseed='0', cpu=0):
  env = dict(os.environ, PYTHONHASHSEED=hashseed, PYTHONPATH=VERIF,
             PYTHONDONTWRITEBYTECODE='1')
  p = subprocess.run(
      [PY, os.path.abspath(__file__), '--child', spec, str(base),
       ','.join(map(str, indices))],
      capture_output=True, text=True, env=env, timeout=1200, check=False)
  for line in p.stdout.splitlines():
    if line.startswith('DIGESTS '):
      return {int(k): v for k, v in json.loads(line[8:]).items()}
  raise RuntimeError(f'child failed: {p.stdout[-500:]} {p.stderr[-2000:]}')


def determinism(n, specs):
  from simkit import registry
  if not specs:
    specs = sorted({f for c in registry.CHECKS.values() for f, _ in c['families']})
  hash_free = set(registry.HASHSEED_INDEPENDENT)
  base = 424242
  bad = 0
  with futures.ThreadPoolExecutor(max_workers=16) as ex:
    for spec in specs:
      idx = list(range(n))
      jobs = {'batch': ex.submit(run_child, spec, base, idx),
              'reverse': ex.submit(run_child, spec, base, idx[::-1])}
      if spec in hash_free:
        jobs['hashseed'] = ex.submit(run_child, spec, base, idx, '12345')
      fresh = {k: ex.submit(run_child, spec, base, [k]) for k in idx}
      ref = jobs['batch'].result()
      n_bad = 0
      for name, job in jobs.items():
        got = job.result()
        diff = [k for k in idx if got[k] != ref[k]]
        if diff:
          n_bad += len(diff)
          print(f'NONDETERMINISM {spec}: {name} differs at indices {diff[:10]}')
      diff = [k for k in idx if fresh[k].result()[k] != ref[k]]
      if diff:
        n_bad += len(diff)
        print(f'NONDETERMINISM {spec}: fresh-interpreter differs at {diff[:10]}')
      print(f'{spec}: {n} indices x {len(jobs) + 1} modes, mismatches {n_bad}',
            flush=True)
      bad += n_bad
  print('determinism', 'FAILED' if bad else 'ok')
  return 1 if bad else 0


if __name__ == '__main__':
  if '--child' in sys.argv:
    i = sys.argv.index('--child')
    child(sys.argv[i + 1], int(sys.argv[i + 2]),
          [int(x) for x in sys.argv[i + 3].split(',')])
  elif '--determinism' in sys.argv:
    rest = sys.argv[sys.argv.index('--determinism') + 1:]
    n = int(rest[0]) if rest and rest[0].isdigit() else 24
    specs = [a for a in rest if not a.isdigit()]
    sys.exit(determinism(n, specs))
  else:
    setup_check()
