"""Deterministic scheduler: real OS threads, one baton, seeded choice.

Every simulated thread is a real thread that only runs while it holds the
*baton*; all other threads are parked on a private raw `_thread` lock (their
*gate*).  Every intercepted synchronisation operation is a scheduling point at
which the run's chooser (a seeded PRNG, or a recorded decision list on replay)
picks which runnable thread continues.  Blocking is modelled, never performed,
so "nobody runnable and no timer pending" is an exact deadlock verdict.

Only ONE primitive is written here: `SimLock` (the replacement for
`_thread.allocate_lock`).  `RLock`, `Condition`, `Event`, `Semaphore`,
`queue.Queue`, `queue.SimpleQueue`, `concurrent.futures` and asyncio's
cross-thread bridges are CPython's own pure-Python implementations running on
top of it, so their semantics (wake order, timeout races, unfair lock hand-off)
are CPython's by construction and not my reading of them.
"""

from __future__ import annotations

import _thread
import collections
import gc
import hashlib
import heapq
import random
import sys
import time as _time_mod
import traceback

_real_time = _time_mod.time
_real_monotonic = _time_mod.monotonic
_real_sleep = _time_mod.sleep
_real_perf_counter = _time_mod.perf_counter
_real_get_ident = _thread.get_ident
_allocate = _thread.allocate_lock

NEW, RUNNABLE, BLOCKED, DONE = 'new', 'runnable', 'blocked', 'done'
FULL_LOG = None  # set to a list by debugging tools to keep every event
LOCK_SITES = bool(__import__('os').environ.get('VERIF_LOCKSITES'))
EPOCH = 1_700_000_000.0


class SimAbort(BaseException):
  """Raised inside simulated threads to unwind them at the end of a run."""


class SimFailure(Exception):
  """Base of failures detected by the scheduler itself."""
  kind = 'failure'

  def __init__(self, msg, detail=None):
    super().__init__(msg)
    self.detail = detail or {}


class Deadlock(SimFailure):
  kind = 'deadlock'


class BudgetExceeded(SimFailure):
  kind = 'budget'


class WallExceeded(SimFailure):
  """The run used more real time than allowed (an overloaded machine): the run
  is cut and counted as inconclusive - neither a pass nor a violation."""
  kind = 'wall'


class InvariantViolation(SimFailure):
  kind = 'invariant'


class HarnessError(Exception):
  pass


# --------------------------------------------------------------------------
# choosers


class RandomChooser:
  """Seeded chooser; `stay` is the probability of taking option 0."""

  def __init__(self, seed, stay=0.0):
    self.rng = random.Random(seed)
    self.stay = stay

  def choose(self, n, kind):
    if kind == 's' and self.stay and self.rng.random() < self.stay:
      return 0
    return self.rng.randrange(n)


class PctChooser:
  """Priority-based scheduling with a few priority change points (PCT).

  Uniform random choice at every step almost never keeps one runnable thread
  waiting for hundreds of steps, which is what some interleavings need (a woken
  consumer that does not run until the producer has put twice more).  Here every
  thread gets a random priority when it is first seen, the runnable thread of
  highest priority always runs, and at `depth` step numbers drawn in advance the
  running thread drops below everybody else.  A thread that keeps being chosen
  for `patience` consecutive decisions without blocking (a polling loop) is
  demoted too, and a small share of decisions is uniform, so nothing starves for
  ever.  Non-scheduling decisions (drawn values) stay uniform.
  Decisions are recorded as indices like everybody else's: replay and
  minimisation do not depend on this class.
  """

  def __init__(self, seed, depth=2, horizon=3000, patience=400, uniform=0.03):
    self.rng = random.Random(seed)
    self.prio = {}
    self.low = 0.0
    self.step = 0
    self.changes = sorted(self.rng.randrange(1, horizon) for _ in range(depth))
    self.patience = patience
    self.uniform = uniform
    self.last = None
    self.run = 0

  def choose(self, n, kind):
    return self.rng.randrange(n)

  def choose_thread(self, tids):
    """tids[0] is the current thread if it is runnable (see Sim)."""
    self.step += 1
    for t in tids:
      if t not in self.prio:
        self.prio[t] = 1.0 + self.rng.random()
    cur = tids[0]
    while self.changes and self.step >= self.changes[0]:
      self.changes.pop(0)
      self.low -= 1.0
      self.prio[cur] = self.low
    if self.rng.random() < self.uniform:
      i = self.rng.randrange(len(tids))
    else:
      i = max(range(len(tids)), key=lambda j: self.prio[tids[j]])
    if tids[i] == self.last:
      self.run += 1
      if self.run > self.patience:
        self.low -= 1.0
        self.prio[tids[i]] = self.low
        self.run = 0
    else:
      self.last, self.run = tids[i], 0
    return i


class ScriptedChooser:
  """Replays a decision list; beyond its end every choice is 0 (= stay)."""

  def __init__(self, decisions):
    self.decisions = list(decisions)
    self.pos = 0
    self.diverged = 0

  def choose(self, n, kind):
    if self.pos >= len(self.decisions):
      return 0
    c = self.decisions[self.pos]
    self.pos += 1
    if c >= n or c < 0:
      self.diverged += 1
      return 0
    return c


# --------------------------------------------------------------------------


class T:
  """A simulated thread record."""
  __slots__ = ('tid', 'name', 'gate', 'state', 'wake_reason', 'joiners', 'exc',
               'timer_seq', 'real_ident', 'why', 'obj', 'daemon', 'group',
               'unwound')

  def __init__(self, tid, name, daemon=False, group=''):
    self.tid = tid
    self.name = name
    self.gate = _allocate()
    self.gate.acquire()
    self.state = NEW
    self.wake_reason = None
    self.joiners = []
    self.exc = None
    self.timer_seq = 0
    self.real_ident = None
    self.why = ''
    self.obj = None
    self.daemon = daemon
    self.group = group
    self.unwound = False

  def __repr__(self):
    return f'<T{self.tid} {self.name} {self.state}>'


class Sim:
  """One simulated execution."""

  current: 'Sim | None' = None

  def __init__(self, chooser, *, max_steps=400_000, spin_k=300, trace_tail=300,
               real_timeout=120.0, repo_prefix='/repo/'):
    self.chooser = chooser
    self.decisions = []
    self.threads: list[T] = []
    self.cur: T | None = None
    self.now = 0.0
    self.timers = []  # (time, seq, T, timer_seq)
    self.step_waits = []  # (step, seq, T, timer_seq)
    self.pred_waits = []  # (pred, T, timer_seq, max_step)
    self.seq = 0
    self.steps = 0
    self.max_steps = max_steps
    self.switches = 0
    self.h = hashlib.blake2b(digest_size=8)
    self.tail = collections.deque(maxlen=trace_tail)
    self.aborting = False
    self.failure: SimFailure | None = None
    self.main_gate = _allocate()
    self.main_gate.acquire()
    self.last_progress_step = 0
    self.spin_k = spin_k
    self.spin_level = 0
    self.jumps = 0
    self.invariants = []
    self.real_timeout = real_timeout
    self.wall_limit = None      # real seconds per run; None = unlimited
    self.wall_t0 = _real_perf_counter()
    self.repo_prefix = repo_prefix
    self.fine = False          # function-entry pre-emption on?
    self.fine_yields = 0
    self.counters = collections.Counter()   # fault kinds fired, probes hit
    self.ident_map = {}
    self.max_now = 0.0
    self.n_events = 0
    self.scratch = {}   # scenario-owned; returned with the run outcome
    self.on_failure = []

  # ---- trace -------------------------------------------------------------
  def log(self, *ev):
    self.n_events += 1
    self.h.update(repr(ev).encode())
    self.tail.append(ev)
    if FULL_LOG is not None:
      FULL_LOG.append(ev)

  def count(self, key, n=1):
    self.counters[key] += n

  # ---- choice ------------------------------------------------------------
  def choose(self, n, kind='s'):
    if n <= 1:
      return 0
    c = self.chooser.choose(n, kind)
    self.decisions.append(c)
    return c

  def draw(self, options, kind='v'):
    """Draws one of `options` (a sequence); recorded like any decision."""
    return options[self.choose(len(options), kind)]

  # ---- threads -----------------------------------------------------------
  def new_thread(self, name=None, daemon=False, group=''):
    tid = len(self.threads)
    t = T(tid, name or f'T{tid}', daemon, group)
    self.threads.append(t)
    return t

  def me(self):
    return self.cur

  def passthrough(self):
    return self.aborting

  def _progress(self, strong=True):
    self.last_progress_step = self.steps
    if strong:
      self.spin_level = 0

  def _fire_next_timer(self, limit=None):
    while self.timers:
      if limit is not None and self.timers[0][0] > limit:
        return False
      when, _, t, tseq = heapq.heappop(self.timers)
      if t.state == BLOCKED and t.timer_seq == tseq:
        if when > self.now:
          self.now = when
        t.state = RUNNABLE
        t.wake_reason = 'timeout'
        t.timer_seq += 1
        # A timer firing keeps the spin detector quiet for a while but does
        # not reset its escalation: threads that wake up only to poll and
        # sleep again are still "waiting for time to pass".
        self._progress(strong=False)
        self.log('timer', t.tid, round(self.now, 6))
        return True
    return False

  def _fire_step_waits(self, force=False):
    fired = False
    while self.step_waits and (force or self.step_waits[0][0] <= self.steps):
      _, _, t, tseq = heapq.heappop(self.step_waits)
      if t.state == BLOCKED and t.timer_seq == tseq:
        t.state = RUNNABLE
        t.wake_reason = 'step'
        t.timer_seq += 1
        self._progress()
        self.log('stepw', t.tid)
        fired = True
        if force:
          break
    return fired

  def _check_pred_waits(self, force=False):
    if not self.pred_waits:
      return False
    fired = False
    keep = []
    for item in self.pred_waits:
      pred, t, tseq, max_step = item
      if t.state != BLOCKED or t.timer_seq != tseq:
        continue
      ok = False
      if force or self.steps >= max_step:
        ok, reason = True, 'predmax'
      else:
        try:
          if pred():
            ok, reason = True, 'pred'
        except Exception:  # pylint: disable=broad-exception-caught
          ok, reason = True, 'prederr'
      if ok:
        t.state = RUNNABLE
        t.wake_reason = reason
        t.timer_seq += 1
        self._progress()
        self.log('predw', t.tid, reason)
        fired = True
        if force:
          force = False
      else:
        keep.append(item)
    self.pred_waits = keep
    return fired

  def _pick_and_switch(self):
    """Pick the next thread and hand over the baton (called by the holder)."""
    me = self.cur
    self.steps += 1
    if self.steps > self.max_steps:
      self.stop_world(BudgetExceeded(
          f'step budget {self.max_steps} exceeded', self.blocked_summary()))
    if (self.wall_limit and not self.steps & 1023
        and _real_perf_counter() - self.wall_t0 > self.wall_limit):
      self.stop_world(WallExceeded(
          f'{self.wall_limit:.0f} s of real time used after {self.steps} steps',
          {}))
    if self.step_waits:
      self._fire_step_waits()
    if self.pred_waits:
      self._check_pred_waits()
    if self.invariants:
      for inv in self.invariants:
        msg = inv()
        if msg:
          self.stop_world(InvariantViolation(msg, self.blocked_summary()))
    if self.steps - self.last_progress_step > self.spin_k:
      # Runnable threads are only polling: let simulated time pass.  The jump
      # reaches at least the next timer and grows while nothing but polling
      # happens (10 ms, 20 ms, ... up to 64 s); every timer due on the way
      # fires.
      self.jumps += 1
      self.last_progress_step = self.steps
      self.spin_level = min(self.spin_level + 1, 14)
      target = self.now + min(0.005 * (2 ** self.spin_level), 64.0)
      if self.timers and self.timers[0][0] > target:
        target = self.timers[0][0]
      while self._fire_next_timer(limit=target):
        pass
      if target > self.now:
        self.now = target
    while True:
      cands = [t for t in self.threads if t.state == RUNNABLE]
      if cands:
        break
      if self._fire_next_timer():
        continue
      if self._fire_step_waits(force=True):
        continue
      if self._check_pred_waits(force=True):
        continue
      self.stop_world(Deadlock('deadlock', self.blocked_summary()))
    if len(cands) > 1:
      if me.state == RUNNABLE:
        # option 0 is always "keep running the current thread"
        i = cands.index(me)
        if i:
          cands.insert(0, cands.pop(i))
      if hasattr(self.chooser, 'choose_thread'):
        c = self.chooser.choose_thread([t.tid for t in cands])
        self.decisions.append(c)
        nxt = cands[c]
      else:
        nxt = cands[self.choose(len(cands), 's')]
    else:
      nxt = cands[0]
    self.log('r', nxt.tid)
    if nxt is me:
      return
    self.switches += 1
    self.cur = nxt
    nxt.gate.release()
    if me.state != DONE:
      me.gate.acquire()  # park
      if self.aborting:
        raise SimAbort()

  def stop_world(self, failure):
    """Called by the baton holder: record the failure, wake the harness."""
    if self.failure is None:
      self.failure = failure
      for hook in self.on_failure:
        # scenario-supplied snapshots of the state at the moment of failure
        # (unwinding lets parked threads run on and changes it)
        try:
          hook()
        except Exception:  # pylint: disable=broad-exception-caught
          pass
    self.aborting = True
    me = self.cur
    self.main_gate.release()
    me.gate.acquire()
    raise SimAbort()

  def yield_point(self, why=''):
    if self.aborting:
      return
    self._pick_and_switch()

  def block(self, timeout=None, why='', obj=None):
    """Blocks the current thread until woken; returns the wake reason."""
    if self.aborting:
      raise SimAbort()
    me = self.cur
    me.state = BLOCKED
    me.why = why
    me.obj = obj
    if not why.startswith('lock'):
      # Waiting for a lock is not progress: threads that only poll shared
      # state under a mutex must not keep the virtual clock from moving.
      # (Going to sleep is weak progress only: it does not reset the growth
      # of the clock jumps.)
      self._progress(strong=False)
    me.wake_reason = None
    me.timer_seq += 1
    if timeout is not None:
      self.seq += 1
      heapq.heappush(
          self.timers,
          (self.now + max(timeout, 0.0), self.seq, me, me.timer_seq))
    self.log('b', me.tid, why)
    self._pick_and_switch()
    me.why = ''
    me.obj = None
    return me.wake_reason

  def wake(self, t, reason='notify', progress=True):
    if t.state == BLOCKED:
      t.state = RUNNABLE
      t.wake_reason = reason
      t.timer_seq += 1
      if progress:
        self._progress()
      self.log('w', t.tid, reason)

  def wait_steps(self, n):
    """Blocks the caller for n scheduling steps (an injector's delay)."""
    if self.aborting:
      raise SimAbort()
    me = self.cur
    me.state = BLOCKED
    me.why = 'steps'
    me.wake_reason = None
    me.timer_seq += 1
    self.seq += 1
    heapq.heappush(self.step_waits,
                   (self.steps + n, self.seq, me, me.timer_seq))
    self.log('b', me.tid, 'steps', n)
    self._pick_and_switch()
    me.why = ''
    return me.wake_reason

  def wait_until(self, pred, max_steps=10_000):
    """Blocks the caller until pred() holds at a scheduling point."""
    if self.aborting:
      raise SimAbort()
    me = self.cur
    me.state = BLOCKED
    me.why = 'pred'
    me.wake_reason = None
    me.timer_seq += 1
    self.pred_waits.append((pred, me, me.timer_seq, self.steps + max_steps))
    self.log('b', me.tid, 'pred')
    self._pick_and_switch()
    me.why = ''
    return me.wake_reason

  def advance(self, dt):
    """Clock-jump fault: moves the virtual clock forward."""
    self.now += dt
    self.log('jump', round(dt, 6))

  # ---- introspection -----------------------------------------------------
  def stack_of(self, t, limit=8):
    """Qualified names of the repo frames of thread t, innermost first."""
    frames = sys._current_frames()  # pylint: disable=protected-access
    f = frames.get(t.real_ident)
    out = []
    while f is not None:
      fn = f.f_code.co_filename
      kind = None
      if '/ml_metrics/' in fn:
        kind = 'repo'
      elif '/scenarios/' in fn:
        kind = 'scen'
      elif '/fakes/' in fn:
        kind = 'fake'
      if kind:
        tag = ''
        if kind == 'repo':
          # Scenarios may tag objects (obj._verif_tag = 'outer') so that a
          # signature can tell which instance a thread is parked in.
          slf = f.f_locals.get('self')
          t = getattr(slf, '_verif_tag', None) if slf is not None else None
          if isinstance(t, str):
            tag = f'[{t}]'
        out.append(f'{kind}:{f.f_code.co_qualname}{tag}')
        if len(out) >= limit:
          break
      f = f.f_back
    return out

  def threads_in(self, func_name, state=BLOCKED):
    """Threads in `state` that have a frame of function `func_name`."""
    res = []
    frames = sys._current_frames()  # pylint: disable=protected-access
    for t in self.threads:
      if t.state != state or t is self.cur:
        continue
      f = frames.get(t.real_ident)
      while f is not None:
        if f.f_code.co_name == func_name:
          res.append(t)
          break
        f = f.f_back
    return res

  def blocked_summary(self):
    return {
        'threads': [
            {'tid': t.tid, 'name': t.name, 'state': t.state, 'why': t.why,
             'stack': self.stack_of(t)}
            for t in self.threads if t.state != DONE
        ],
        'now': round(self.now, 6),
        'steps': self.steps,
    }

  # ---- running -----------------------------------------------------------
  def _start_real(self, t, fn):
    def body():
      t.real_ident = _real_get_ident()
      self.ident_map[t.real_ident] = t
      t.gate.acquire()
      try:
        if not self.aborting:
          fn()
      except SimAbort:
        pass
      except BaseException as e:  # pylint: disable=broad-exception-caught
        t.exc = e
      self._thread_done(t)

    _thread.start_new_thread(body, ())

  def _thread_done(self, t):
    t.state = DONE
    self.ident_map.pop(t.real_ident, None)
    if self.aborting:
      t.unwound = True
      self.main_gate.release()
      return
    self._progress()
    for j in t.joiners:
      self.wake(j, 'joined')
    t.joiners = []
    self.log('done', t.tid)
    if t.tid == 0:
      self.aborting = True
      self.main_gate.release()
      return
    try:
      self._pick_and_switch()
    except SimAbort:
      pass

  def run(self, fn):
    """Runs fn() as simulated thread T0. Returns a dict describing the run."""
    if Sim.current is not None:
      raise HarnessError('nested simulation')
    result = {}
    gc_was = gc.isenabled()
    gc.disable()
    Sim.current = self
    main = self.new_thread('main')

    def main_body():
      try:
        result['value'] = fn()
      except SimAbort:
        raise
      except BaseException as e:  # pylint: disable=broad-exception-caught
        result['error'] = e

    try:
      self._start_real(main, main_body)
      main.state = RUNNABLE
      self.cur = main
      main.gate.release()
      if not self.main_gate.acquire(timeout=self.real_timeout):
        self._hard_fail('real-time limit: simulation did not finish')
      # Driver finished or the world was stopped.  Everything still alive is
      # parked.  Record it, then unwind.
      result['leftover'] = [
          {'tid': t.tid, 'name': t.name, 'state': t.state, 'why': t.why,
           'daemon': t.daemon, 'group': t.group, 'stack': self.stack_of(t)}
          for t in self.threads if t.state != DONE and t.tid != 0
      ]
      self.aborting = True
      self.max_now = self.now
      for t in list(self.threads):
        if t.state == DONE or t.state == NEW:
          continue
        self.cur = t
        t.gate.release()
        if not self.main_gate.acquire(timeout=20.0):
          self._hard_fail(f'thread {t.name} did not unwind')
    finally:
      Sim.current = None
      if gc_was:
        gc.enable()
    result['failure'] = self.failure
    result['steps'] = self.steps
    result['switches'] = self.switches
    result['now'] = self.max_now
    result['jumps'] = self.jumps
    result['digest'] = self.h.hexdigest()
    result['decisions'] = self.decisions
    result['counters'] = dict(self.counters)
    result['threads'] = len(self.threads)
    result['tail'] = list(self.tail)
    result['thread_names'] = {t.tid: t.name for t in self.threads}
    result['scratch'] = self.scratch
    return result

  def _hard_fail(self, msg):
    import faulthandler
    sys.stderr.write(f'HARNESS-ERROR {msg}\n')
    faulthandler.dump_traceback(file=sys.stderr, all_threads=True)
    sys.stderr.flush()
    import os
    os._exit(3)  # pylint: disable=protected-access


def sim():
  return Sim.current


def active():
  """The running simulation if the caller is (one of) its threads."""
  s = Sim.current
  if s is None or s.aborting:
    return None
  return s


# --------------------------------------------------------------------------
# the one primitive


class SimLock:
  """Replacement for `_thread.allocate_lock()` objects."""

  def __init__(self):
    self._locked = False
    self._waiters = []
    self._holder = None
    # The very first acquire of a lock created inside a run is not a
    # scheduling point (nobody else can know the lock yet).  Locks created
    # outside a run live across runs and always yield, so that a run behaves
    # the same whether it is the first or the n-th of its process.
    self._used = Sim.current is None
    if LOCK_SITES:
      f = sys._getframe(1)  # pylint: disable=protected-access
      site = []
      while f is not None and len(site) < 3:
        fn = f.f_code.co_filename
        if not fn.endswith(('threading.py', 'sched.py')):
          site.append(f'{fn.rsplit("/", 1)[-1]}:{f.f_lineno}')
        f = f.f_back
      self.site = '<'.join(site)

  def acquire(self, blocking=True, timeout=-1):
    s = Sim.current
    if s is None or s.aborting:
      # Outside a run (import time, per-run reset, interpreter exit) or while
      # unwinding: never block.  A thread that would have to wait while the
      # world is being unwound is killed instead (SimAbort is a BaseException).
      if self._locked:
        if not blocking:
          return False
        if s is None:
          return True
        raise SimAbort()
      self._locked = True
      return True
    if self._used:
      s.yield_point('acq')
    else:
      self._used = True
    me = s.cur
    if not self._locked:
      self._locked = True
      self._holder = me
      return True
    if not blocking:
      return False
    deadline = None
    if timeout is not None and timeout >= 0:
      deadline = s.now + timeout
    while self._locked:
      self._waiters.append(me)
      remaining = None if deadline is None else max(deadline - s.now, 0.0)
      try:
        r = s.block(remaining,
                    'lock@' + self.site if LOCK_SITES else 'lock', self)
      finally:
        try:
          self._waiters.remove(me)
        except ValueError:
          pass
      if r == 'timeout' and self._locked:
        return False
    self._locked = True
    self._holder = me
    return True

  def release(self):
    s = Sim.current
    if not self._locked:
      if s is not None and s.aborting:
        return
      raise RuntimeError('release unlocked lock')
    self._locked = False
    holder, self._holder = self._holder, None
    if s is None or s.aborting:
      return
    if self._waiters:
      # Unfair hand-off, as in CPython: all waiters become runnable and
      # compete with everybody else; losers go back to sleep.
      # A release by the thread that acquired the lock is mutual exclusion;
      # a release by another thread is a signal (Condition.notify, Event.set,
      # Semaphore.release are built that way) and counts as progress.
      signal = holder is not s.cur
      for w in self._waiters:
        s.wake(w, 'lock', progress=signal)
    s.yield_point('rel')

  def locked(self):
    return self._locked

  _is_owned = locked

  def __enter__(self):
    return self.acquire()

  def __exit__(self, *a):
    self.release()

  def _at_fork_reinit(self):
    self._locked = False
    self._waiters = []

  def __repr__(self):
    return f'<SimLock {"locked" if self._locked else "unlocked"} {id(self):#x}>'


# --------------------------------------------------------------------------
# threads


class SimThread:
  """Replacement for threading.Thread."""

  _counter = 0

  def __init__(self, group=None, target=None, name=None, args=(), kwargs=None,
               *, daemon=None):
    self._target = target
    self._args = args
    self._kwargs = kwargs or {}
    self._name = name
    self._daemonic = bool(daemon)
    self._t = None
    self._started_flag = False
    self._sim = None
    # Deterministic hash: ThreadPoolExecutor keeps its threads in a set and
    # joins them in iteration order.
    SimThread._counter += 1
    self._serial = SimThread._counter

  def __hash__(self):
    return self._serial

  def __eq__(self, other):
    return self is other

  @property
  def name(self):
    if self._name:
      return self._name
    return f'Thread-{self._t.tid}' if self._t is not None else 'Thread-new'

  @name.setter
  def name(self, v):
    self._name = v

  def getName(self):  # pylint: disable=invalid-name
    return self.name

  @property
  def daemon(self):
    return self._daemonic

  @daemon.setter
  def daemon(self, v):
    self._daemonic = bool(v)

  @property
  def ident(self):
    return None if self._t is None else 1000 + self._t.tid

  native_id = ident

  def run(self):
    try:
      if self._target is not None:
        self._target(*self._args, **self._kwargs)
    finally:
      del self._target, self._args, self._kwargs

  def start(self):
    if self._started_flag:
      raise RuntimeError('threads can only be started once')
    s = Sim.current
    self._started_flag = True
    if s is None or s.aborting:
      # Outside a run no thread can be started; it is recorded as finished.
      self._t = T(-1, self._name or 'unstarted')
      self._t.state = DONE
      return
    self._sim = s
    t = s.new_thread(self._name, self._daemonic, s.cur.group if s.cur else '')
    t.obj = None
    self._t = t
    _sim_threads[t] = self
    s._start_real(t, self.run)
    t.state = RUNNABLE
    s._progress()
    s.log('spawn', t.tid)
    s.yield_point('spawn')

  def join(self, timeout=None):
    if not self._started_flag:
      raise RuntimeError('cannot join thread before it is started')
    s = Sim.current
    t = self._t
    if s is None or s.aborting or s is not self._sim:
      return
    if t is s.cur:
      raise RuntimeError('cannot join current thread')
    s.yield_point('join')
    if t.state != DONE:
      me = s.cur
      t.joiners.append(me)
      try:
        s.block(timeout, 'join', self)
      finally:
        if me in t.joiners:
          t.joiners.remove(me)

  def is_alive(self):
    return self._started_flag and self._t is not None and self._t.state != DONE

  def isDaemon(self):  # pylint: disable=invalid-name
    return self._daemonic

  def setDaemon(self, v):  # pylint: disable=invalid-name
    self._daemonic = bool(v)

  def __repr__(self):
    return f'<SimThread {self.name}>'


_sim_threads = {}  # T -> SimThread, reset per run


# --------------------------------------------------------------------------
# clock


def sim_time():
  s = Sim.current
  if s is None:
    return _real_time()
  s.now += 1e-6
  return EPOCH + s.now


def sim_monotonic():
  s = Sim.current
  if s is None:
    return _real_monotonic()
  s.now += 1e-6
  return s.now


def sim_time_ns():
  return int(sim_time() * 1e9)


def sim_monotonic_ns():
  return int(sim_monotonic() * 1e9)


def sim_sleep(secs):
  s = Sim.current
  if s is None:
    return _real_sleep(secs)
  if s.aborting:
    return None
  if secs <= 0:
    s.now += 1e-4
    s.yield_point('sleep0')
  else:
    s.block(secs, 'sleep')
  return None


def sim_get_ident():
  s = Sim.current
  if s is not None:
    t = s.ident_map.get(_real_get_ident())
    if t is not None:
      return 1000 + t.tid
  return _real_get_ident()


# --------------------------------------------------------------------------
# function-entry pre-emption (PEP 669)

_TOOL = 4
_fine_files: set[str] = set()
_mon_ready = False


# Methods that containers call implicitly (dict/set probing, f-strings): how
# often they run depends on hash-table internals, not on the program, so they
# (and what they call) are never pre-emption points.
_IMPLICIT = frozenset(('__eq__', '__ne__', '__hash__', '__str__', '__repr__',
                       '__lt__', '__bool__', '__len__'))


def _py_start(code, offset):
  if code.co_filename not in _fine_files:
    return sys.monitoring.DISABLE
  s = Sim.current
  if s is not None and s.fine and not s.aborting:
    if _real_get_ident() == s.cur.real_ident:
      f = sys._getframe(1)  # pylint: disable=protected-access
      for _ in range(4):
        if f is None:
          break
        if f.f_code.co_name in _IMPLICIT:
          return None
        f = f.f_back
      s.fine_yields += 1
      if FULL_LOG is not None:
        FULL_LOG.append(('fn', code.co_qualname))
      s.yield_point('fn')
  return None


def _py_line(code, line):
  """Line-level pre-emption (sim.fine == 'line'): every line of the registered
  source files is a scheduling point, so races between two statements without
  any call or lock operation in between are reachable too."""
  if code.co_filename not in _fine_files:
    return sys.monitoring.DISABLE
  s = Sim.current
  if s is not None and s.fine == 'line' and not s.aborting:
    if _real_get_ident() == s.cur.real_ident:
      f = sys._getframe(1)  # pylint: disable=protected-access
      for _ in range(4):
        if f is None:
          break
        if f.f_code.co_name in _IMPLICIT:
          return None
        f = f.f_back
      s.fine_yields += 1
      if FULL_LOG is not None:
        FULL_LOG.append(('ln', code.co_qualname, line))
      s.yield_point('ln')
  return None


def setup_fine(files):
  """Registers the monitoring tool; `files` are the source files to pre-empt in."""
  global _mon_ready
  _fine_files.update(files)
  if _mon_ready:
    return
  mon = sys.monitoring
  mon.use_tool_id(_TOOL, 'simkit')
  mon.register_callback(_TOOL, mon.events.PY_START, _py_start)
  mon.register_callback(_TOOL, mon.events.LINE, _py_line)
  _mon_ready = True


def set_fine(on):
  if not _mon_ready:
    return
  mon = sys.monitoring
  ev = 0
  if on:
    ev = mon.events.PY_START
    if on == 'line':
      ev |= mon.events.LINE
  mon.set_events(_TOOL, ev)


# --------------------------------------------------------------------------


_future_serial = [0]


def reset_run_state():
  _sim_threads.clear()
  SimThread._counter = 0  # pylint: disable=protected-access
  _future_serial[0] = 0


_installed = False


def install():
  """Patches threading/queue/time.  Call BEFORE importing the system under test."""
  global _installed
  if _installed:
    return
  _installed = True
  import logging  # noqa: F401  (its locks must stay real; see DESIGN §3)
  import threading
  import queue
  import time
  import concurrent.futures.thread as cft
  import concurrent.futures._base as cfb  # noqa: F401

  threading._allocate_lock = SimLock  # pylint: disable=protected-access
  threading.Lock = SimLock
  threading.RLock = threading._PyRLock  # pylint: disable=protected-access
  threading._CRLock = None  # pylint: disable=protected-access
  threading.Thread = SimThread
  threading.get_ident = sim_get_ident
  _orig_current = threading.current_thread

  def current_thread():
    s = Sim.current
    if s is not None:
      t = s.ident_map.get(_real_get_ident())
      if t is not None:
        st = _sim_threads.get(t)
        if st is not None:
          return st
    return _orig_current()

  threading.current_thread = current_thread
  threading.currentThread = current_thread
  # `from time import monotonic as _time` inside threading: Semaphore.acquire,
  # Condition.wait_for, Barrier use it to compute remaining timeouts.
  threading._time = sim_monotonic  # pylint: disable=protected-access
  queue.SimpleQueue = queue._PySimpleQueue  # pylint: disable=protected-access
  queue.time = sim_monotonic
  time.time = sim_time
  time.monotonic = sim_monotonic
  time.sleep = sim_sleep
  time.perf_counter = sim_monotonic
  time.time_ns = sim_time_ns
  time.monotonic_ns = sim_monotonic_ns
  # concurrent.futures keeps futures in sets (wait, as_completed): give them
  # a hash that does not depend on memory addresses.
  _orig_future_init = cfb.Future.__init__

  def _future_init(self):
    _orig_future_init(self)
    _future_serial[0] += 1
    self._sim_serial = _future_serial[0]

  cfb.Future.__init__ = _future_init
  cfb.Future.__hash__ = lambda self: getattr(self, '_sim_serial', 0)
  cfb.Future.__eq__ = lambda self, other: self is other

  # futures.wait()/as_completed() lock the futures' conditions in id() order.
  def _acquire_init(self, futures):
    self.futures = sorted(futures, key=lambda f: getattr(f, '_sim_serial', 0))

  cfb._AcquireFutures.__init__ = _acquire_init  # pylint: disable=protected-access
  # Module-level objects created before the patch that are held across
  # scheduling points must be simulated too.
  cft._global_shutdown_lock = SimLock()  # pylint: disable=protected-access
  cft._threads_queues = {}  # pylint: disable=protected-access


def format_tail(tail, names=None):
  out = []
  for ev in tail:
    out.append(' '.join(str(x) for x in ev))
  return out


def format_exc(e):
  return ''.join(traceback.format_exception(type(e), e, e.__traceback__))
