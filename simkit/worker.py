"""Worker process: runs a slice of the run indices of one check.

Usage: worker.py <job.json> <out.jsonl>
Job: {"prop", "families": [[spec, weight], ...], "seed", "start", "stride",
      "count", "tier", "cpu", "deadline_s", "max_report"}
Output: JSON lines {"t": "violation"|"done"|"error", ...}.
"""

from __future__ import annotations

import collections
import faulthandler
import json
import os
import random
import sys
import time

VERIF = os.path.dirname(os.path.dirname(os.path.abspath(__file__)))
if VERIF not in sys.path:
  sys.path.insert(0, VERIF)


def pick_family(families, seed, index):
  """Deterministic weighted choice of the family of run `index`."""
  total = sum(w for _, w in families)
  r = random.Random(seed * 1_000_003 + index).random() * total
  acc = 0.0
  for spec, w in families:
    acc += w
    if r < acc:
      return spec
  return families[-1][0]


def main():
  job = json.load(open(sys.argv[1]))
  out = open(sys.argv[2], 'w', buffering=1)
  cpu = job.get('cpu')
  if cpu is not None:
    try:
      os.sched_setaffinity(0, {cpu})
    except OSError:
      pass
  from simkit import harness
  harness.setup()
  fams = {spec: harness.load_family(spec) for spec, _ in job['families']}
  t0 = time.perf_counter()
  deadline = t0 + job.get('deadline_s', 1e9)
  st = collections.defaultdict(lambda: {
      'runs': 0, 'steps': 0, 'switches': 0, 'sim_s': 0.0, 'nontrivial': 0,
      'fine_runs': 0, 'completed': 0, 'violating_runs': 0, 'decisions': 0,
      'counters': collections.Counter(), 'probes': collections.Counter(),
      'samples': [], 'wall': 0.0, 'threads': 0, 'max_steps': 0})
  digests = set()
  reported = collections.Counter()
  sig_counts = collections.Counter()
  max_report = job.get('max_report', 2)
  n = 0
  stopped_early = False
  for index in range(job['start'], job['count'], job['stride']):
    if time.perf_counter() > deadline:
      stopped_early = True
      break
    spec = pick_family(job['families'], job['seed'], index)
    fam = fams[spec]
    seed = harness.run_seed(job['prop'], spec, job['seed'], index)
    # a run that is merely slow (an overloaded machine) is cut by the simulator
    # after WALL_LIMIT and counted; the watchdog is for a real hang
    harness.WALL_LIMIT = 200.0
    faulthandler.dump_traceback_later(400, exit=True)
    cfg, res = harness.run_random(fam, seed, job.get('tier', 'quick'))
    faulthandler.cancel_dump_traceback_later()
    n += 1
    s = st[spec]
    s['runs'] += 1
    s['steps'] += res['steps']
    s['max_steps'] = max(s['max_steps'], res['steps'])
    s['switches'] += res['switches']
    s['sim_s'] += res['now']
    s['wall'] += res['wall']
    s['threads'] += res['threads']
    s['decisions'] += len(res['decisions'])
    s['fine_runs'] += 1 if cfg.get('sim', {}).get('fine') else 0
    s['counters'].update(res['counters'])
    for p in fam.probes(cfg, res):
      s['probes'][p] += 1
    if res.get('failure') is None and 'error' not in res:
      s['completed'] += 1
    if fam.nontrivial(cfg, res):
      s['nontrivial'] += 1
      digests.add(res['digest'])
    if len(s['samples']) < 2 and not res['violations']:
      s['samples'].append(fam.sample(cfg, res))
    if res['violations']:
      s['violating_runs'] += 1
      for vi in res['violations']:
        sig_counts[vi['sig']] += 1
        if reported[vi['sig']] < max_report:
          reported[vi['sig']] += 1
          out.write(json.dumps({
              't': 'violation', 'prop': job['prop'], 'family': spec,
              'index': index, 'seed': seed, 'cfg': cfg,
              'decisions': res['decisions'], 'digest': res['digest'],
              'violation': vi, 'steps': res['steps'],
              'tail': [list(map(str, e)) for e in res['tail'][-120:]],
              'thread_names': {str(k): v for k, v in res['thread_names'].items()},
          }) + '\n')
  stats = {}
  for spec, s in st.items():
    s = dict(s)
    s['counters'] = dict(s['counters'])
    s['probes'] = dict(s['probes'])
    stats[spec] = s
  out.write(json.dumps({
      't': 'done', 'runs': n, 'stats': stats, 'digests': sorted(digests),
      'sig_counts': dict(sig_counts), 'wall': time.perf_counter() - t0,
      'stopped_early': stopped_early}) + '\n')
  out.close()
  sys.stdout.flush()
  os._exit(0)  # pylint: disable=protected-access


if __name__ == '__main__':
  try:
    main()
  except BaseException:  # pylint: disable=broad-exception-caught
    import traceback
    try:
      with open(sys.argv[2], 'a') as f:
        f.write(json.dumps({'t': 'error', 'msg': traceback.format_exc()}) + '\n')
    finally:
      traceback.print_exc()
      os._exit(4)  # pylint: disable=protected-access
