#!/bin/sh
# confirm_mutant.sh <mut_dir> : confirm a seeded change in a fresh scratch worktree of /repo HEAD:
#   demo passes without the change, fails with it, baseline suite still passes with it.
set -u
M="$1"; WT="/tmp/confirm_wt_$$"
git -C /repo worktree add -q "$WT" HEAD || exit 2
cd "$WT"
echo "== demo on unmodified tree"; PYTHONPATH="$WT" timeout 300 /venv/bin/python "$M/demo.py" | tail -3; echo "exit=$?"
git apply "$M/patch.diff" || { echo "PATCH DOES NOT APPLY"; git -C /repo worktree remove --force "$WT"; exit 3; }
echo "== demo with change"; PYTHONPATH="$WT" timeout 300 /venv/bin/python "$M/demo.py" | tail -3; echo "exit=$?"
echo "== baseline suite with change"; PYTHONPATH="$WT" timeout 3000 /venv/bin/python -m pytest -q -p no:cacheprovider --timeout=900 --continue-on-collection-errors -n 8 2>&1 | grep -E "passed|failed" 
cd /; git -C /repo worktree remove --force "$WT"
