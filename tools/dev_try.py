import os, sys, time, collections, faulthandler
os.sched_setaffinity(0, {int(os.environ.get('CPU', '3'))})
faulthandler.dump_traceback_later(int(os.environ.get('HANG', '120')), exit=True)
sys.path.insert(0, '/verif')
from simkit import harness
harness.setup()
fam = harness.load_family(sys.argv[1])
N = int(sys.argv[2])
base = int(os.environ.get('VERIF_SEED', '1'))
t0 = time.perf_counter()
sigs = collections.Counter(); digs = set(); steps = 0; first = {}
for i in range(N):
  seed = harness.run_seed(fam.prop, fam.name, base, i)
  cfg, out = harness.run_random(fam, seed)
  steps += out['steps']; digs.add(out['digest'])
  for vi in out['violations']:
    sigs[vi['sig']] += 1
    first.setdefault(vi['sig'], (i, cfg, vi['msg'][:600]))
dt = time.perf_counter() - t0
print(f'{N} runs {N/dt:.0f} runs/s {steps/dt:.0f} steps/s distinct={len(digs)}')
for s, n in sigs.most_common():
  print(n, s, first[s])
