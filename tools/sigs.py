"""dev helper: run N seeds of a family in-process and print signature counts only."""
import os, sys, time, collections, faulthandler
os.sched_setaffinity(0, {int(os.environ.get('CPU', '3'))})
faulthandler.dump_traceback_later(int(os.environ.get('HANG', '300')), exit=True)
sys.path.insert(0, '/verif')
from simkit import harness
harness.setup()
fam = harness.load_family(sys.argv[1]); N = int(sys.argv[2]); base = int(os.environ.get('VERIF_SEED', '1'))
t0 = time.perf_counter(); sigs = collections.Counter(); first = {}; steps = 0
for i in range(N):
  cfg, out = harness.run_random(fam, harness.run_seed(fam.prop, fam.name, base, i)); steps += out['steps']
  for vi in out['violations']:
    sigs[vi['sig']] += 1; first.setdefault(vi['sig'], (i, vi['msg'][:int(os.environ.get('MSG','160'))]))
dt = time.perf_counter() - t0
print(f'{N} runs {N/dt:.0f} runs/s {steps/dt:.0f} steps/s')
for s, n in sigs.most_common(): print(n, s, first[s])
