#!/bin/sh
# Stub conformance: the five upstream test modules that the pinned baseline cannot collect
# (they import courier / courier.python.testutil / portpicker) run on REAL threads against
# the fake transport in /verif/fakes.  Not part of any registered check.
cd /repo && PYTHONPATH=/verif/fakes:/verif:/repo timeout 3000 /venv/bin/python -m pytest -q -p no:cacheprovider --timeout=900 \
  ml_metrics/_src/utils/iter_utils_test.py ml_metrics/_src/utils/courier_utils_test.py \
  ml_metrics/_src/chainables/courier_server_test.py ml_metrics/_src/chainables/courier_worker_test.py \
  ml_metrics/_src/chainables/orchestrate_test.py "$@" 2>&1 | tail -8
