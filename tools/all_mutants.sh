#!/bin/sh
# all_mutants.sh [ID-prefix]: apply every seeded change to /repo in turn, run the
# quick check of its property, undo. Prints one line per change.
cd /verif
for d in seeded/${1:-}*/; do
  id=$(basename "$d"); prop=${id%%_*}
  if ! git -C /repo apply --check "/verif/$d/patch.diff" 2>/dev/null; then
    echo "$id: patch does not apply on the current /repo HEAD"; continue
  fi
  git -C /repo apply "/verif/$d/patch.diff"
  out=$(./check "$prop" --no-evidence 2>&1 | grep -E "^(VIOLATION|HARNESS-ERROR)" | head -3 | sed 's/replay=.*replays\///' | tr '\n' ' ')
  git -C /repo checkout -- .
  echo "$id: ${out:-MISSED}"
done
