#!/bin/sh
# all_mutants.sh [ID-prefix]: apply every seeded change in turn to a scratch
# worktree of /repo HEAD (never to /repo itself), run the quick check of its
# property against it, undo. Prints one line per change.
cd /verif
WT=${WT:-/tmp/wt_allmut}
git -C /repo worktree remove --force "$WT" 2>/dev/null
git -C /repo worktree add -q --detach "$WT" HEAD || exit 3
for d in seeded/${1:-}*/; do
  id=$(basename "$d"); prop=${id%%_*}
  if ! git -C "$WT" apply --check "/verif/$d/patch.diff" 2>/dev/null; then
    echo "$id: patch does not apply on the current /repo HEAD"; continue
  fi
  git -C "$WT" apply "/verif/$d/patch.diff"
  out=$(VERIF_REPO="$WT" ./check "$prop" --no-evidence 2>&1 | grep -E "^(VIOLATION|HARNESS-ERROR)" | head -3 | sed 's/replay=.*replays\///' | tr '\n' ' ')
  git -C "$WT" checkout -- .
  echo "$id: ${out:-MISSED}"
done
git -C /repo worktree remove --force "$WT"
