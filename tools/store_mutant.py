#!/usr/bin/env python3
"""store_mutant.py <mut_dir> <seeded_id> <detected_by text>: keep a confirmed seeded change."""
import json, os, shutil, sys
src, sid, det = sys.argv[1], sys.argv[2], sys.argv[3]
dst = os.path.join('/verif/seeded', sid)
os.makedirs(dst, exist_ok=True)
for f in ('patch.diff', 'demo.py'):
  shutil.copy(os.path.join(src, f), os.path.join(dst, f))
meta = json.load(open(os.path.join(src, 'meta.json')))
meta['confirmed_by_me'] = {
    'scratch_worktree': 'fresh worktree of /repo HEAD via tools/confirm_mutant.sh',
    'demo_without_change': 'PASS', 'demo_with_change': 'FAIL',
    'baseline_suite_with_change': '657 passed, 7 pre-existing collection errors'}
meta['detected_by'] = det
meta['origin'] = 'written by an independent sub-agent that saw only the property text and its own worktree'
json.dump(meta, open(os.path.join(dst, 'meta.json'), 'w'), indent=1)
print('stored', dst)
