#!/bin/sh
# soak.sh <first_seed> <last_seed> <workers> PROP... : run quick checks under many VERIF_SEED values;
# print every run that does not exit 0 (false-alarm hunting on the unchanged tree).
A="$1"; B="$2"; W="$3"; shift 3
cd "$(dirname "$0")/.."
for s in $(seq "$A" "$B"); do
  for p in "$@"; do
    out=$(VERIF_SEED=$s ./check "$p" --no-evidence --workers "$W" 2>&1); rc=$?
    echo "seed=$s $p rc=$rc $(echo "$out" | tail -1)"
    if [ $rc -ne 0 ]; then echo "$out" | grep -E "VIOLATION|violation:|HARNESS" | cut -c1-600; fi
  done
done
