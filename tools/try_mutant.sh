#!/bin/sh
# try_mutant.sh <patch.diff> <PROP> [extra check args]: apply to /repo, run the quick check, undo.
set -u
P="$1"; PROP="$2"; shift 2
git -C /repo apply "$P" || { echo "PATCH DOES NOT APPLY"; exit 3; }
cd /verif && ./check "$PROP" --no-evidence "$@" 2>&1 | grep -E "^(VIOLATION|KNOWN-FINDING|HARNESS-ERROR|violation:|C[0-9][0-9]:)" | cut -c1-400
git -C /repo checkout -- .
git -C /repo status --short | grep -v egg-info
