"""Determinism probe: run index K of a family (a) as the first run of a fresh
process and (b) after the preceding runs of the same worker slice; compare."""
import os, sys, json, subprocess
sys.path.insert(0, '/verif')
if len(sys.argv) > 1 and sys.argv[1] == 'child':
  os.sched_setaffinity(0, {int(os.environ.get('CPU', '5'))})
  from simkit import harness, sched
  harness.setup()
  spec, base, k, warm = sys.argv[2], int(sys.argv[3]), int(sys.argv[4]), int(sys.argv[5])
  fam = harness.load_family(spec)
  for i in range(max(0, k - warm), k):
    harness.run_random(fam, harness.run_seed(fam.prop, spec, base, i))
  sched.FULL_LOG = []
  cfg, out = harness.run_random(fam, harness.run_seed(fam.prop, spec, base, k))
  print(json.dumps({'digest': out['digest'], 'log': [list(map(str, e)) for e in sched.FULL_LOG], 'cfg': cfg}))
  sys.stdout.flush(); os._exit(0)
spec, base, n = sys.argv[1], int(sys.argv[2]), int(sys.argv[3])
warm = int(sys.argv[4]) if len(sys.argv) > 4 else 5
bad = 0
for k in range(n):
  res = []
  for w in (0, warm):
    env = dict(os.environ, PYTHONHASHSEED=os.environ.get('HS', '0'))
    p = subprocess.run([sys.executable, __file__, 'child', spec, str(base), str(k), str(w)], capture_output=True, text=True, env=env)
    try:
      res.append(json.loads(p.stdout.splitlines()[-1]))
    except Exception:
      print(p.stdout[-500:], p.stderr[-2000:]); raise
  if res[0]['digest'] != res[1]['digest']:
    bad += 1
    a, b = res[0]['log'], res[1]['log']
    i = next((i for i in range(min(len(a), len(b))) if a[i] != b[i]), min(len(a), len(b)))
    print('MISMATCH k', k, 'cfg', res[0]['cfg'], 'first diff at', i, 'of', len(a), len(b))
    print(' fresh :', a[max(0,i-6):i+4]); print(' warmed:', b[max(0,i-6):i+4])
print('checked', n, 'mismatches', bad)
