#!/bin/sh
# Runs the thorough tier of every check once (no evidence rewrite); prints one line per check.
cd "$(dirname "$0")/.."
for p in "$@"; do
  out=$(./check "$p" --tier thorough --no-evidence 2>&1); rc=$?
  echo "THOROUGH $p rc=$rc $(echo "$out" | tail -1)"
  echo "$out" | grep -E "^(VIOLATION|violation:|HARNESS|NOTE)" | cut -c1-500
done
